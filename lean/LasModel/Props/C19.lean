/-
C19 — interrupted writes and truncated files never yield points that were not written.
-/
import LasModel.Model.Crash
import LasModel.Lemmas.ReadBack
import LasModel.Lemmas.HeaderRT
import LasModel.Lemmas.Append
import LasModel.Props.C07

namespace LasModel.Props.C19
open LasModel.Bytes LasModel.Strings LasModel.Header LasModel.FileIO LasModel.Crash LasModel.Appender LasModel.Props.C07

/-- (ii) **torn counter**: a little-endian point counter being overwritten from `old` to
    `new ≥ old` and interrupted after any number of bytes decodes to at most `new` -/
theorem C19_torn_counter (w old new k : Nat) (hon : old ≤ new) (hn : new < 256 ^ w) :
    leNat ((leBytes w new).take k ++ (leBytes w old).drop k) ≤ new :=
  torn_counter w old new k hon hn

/-- a truncated little-endian counter decodes to at most the full value -/
theorem C19_truncated_counter (w n k : Nat) (hn : n < 256 ^ w) : leNat ((leBytes w n).take k) ≤ n := by
  have := torn_counter w 0 n k (Nat.zero_le _) hn
  have hz : ∀ w, leNat (leBytes w 0) = 0 := by intro w; rw [leNat_leBytes]; simp
  have hdrop : leNat ((leBytes w 0).drop k) = 0 := by
    have : ∀ (w k : Nat), leNat ((leBytes w 0).drop k) = 0 := by
      intro w
      induction w with
      | zero => intro k; simp [leBytes, leNat]
      | succ w ih =>
        intro k
        cases k with
        | zero => simp only [List.drop_zero]; exact hz _
        | succ k => simp only [leBytes, List.drop_succ_cons]; exact ih k
    exact this w k
  have happ : ∀ (a b : Bytes), leNat (a ++ b) = leNat a + 256 ^ a.length * leNat b := by
    intro a b
    induction a with
    | nil => simp [leNat]
    | cons x xs ih => simp only [List.cons_append, leNat, ih, List.length_cons, Nat.pow_succ]; rw [Nat.mul_add]; ac_rfl
  rw [happ, hdrop] at this
  simpa using this

theorem splitRecs_prefix (recLen n m : Nat) (bs : Bytes) (hnm : n ≤ m) :
    IsPrefix (splitRecs recLen n bs) (splitRecs recLen m bs) := by
  induction n generalizing m bs with
  | zero => exact ⟨_, rfl⟩
  | succ n ih =>
    cases m with
    | zero => omega
    | succ m =>
      obtain ⟨t, ht⟩ := ih m (bs.drop recLen) (by omega)
      exact ⟨t, by simp only [splitRecs, List.cons_append, ht]⟩

/-- (iv) **the points returned depend only on (count, offset, record length) and the bytes
    present**: whatever header was decoded, if it carries the intended record length, the
    reader is positioned at the start of the record area, the record area of the file is a
    prefix of the intended records followed by anything (`present` bytes of it), and the count
    does not exceed the number of intended records, then the records returned are a prefix of
    the intended sequence — or the read fails. -/
theorem C19_records_prefix (h : Hdr) (offset : Nat) (file : Bytes) (recs : List Rec) (tail : Bytes) (present : Nat)
    (hpos : 0 < h.recLen) (hrec : ∀ r ∈ recs, r.length = h.recLen)
    (harea : file.drop offset = (recs.flatten ++ tail).take present)
    (hcount : h.count ≤ recs.length) :
    (∃ e, readRecords h offset file = .error e) ∨
    (∃ rs, readRecords h offset file = .ok rs ∧ IsPrefix rs recs) := by
  unfold readRecords
  simp only
  by_cases hmod : h.recLen ≠ 0 ∧ ((file.drop offset).take (h.count * h.recLen)).length % h.recLen ≠ 0
  · left; exact ⟨.partialRecord, by rw [if_pos hmod]⟩
  · right
    rw [if_neg hmod]
    refine ⟨_, rfl, ?_⟩
    have hne : ¬ h.recLen = 0 := by omega
    simp only [hne, if_false]
    have hflat := flatten_length_uniform recs h.recLen hrec
    -- the available bytes are a prefix of the intended record bytes
    have hav : (file.drop offset).take (h.count * h.recLen) = recs.flatten.take (min present (h.count * h.recLen)) := by
      rw [harea, List.take_take]
      have hle : min (h.count * h.recLen) present ≤ recs.flatten.length := by
        rw [hflat]
        exact Nat.le_trans (Nat.min_le_left _ _) (Nat.mul_le_mul_right _ hcount)
      rw [List.take_append_of_le_length hle, Nat.min_comm]
    rw [hav]
    generalize hq : min present (h.count * h.recLen) = q at *
    have hqle : q ≤ recs.flatten.length := by
      rw [hflat, ← hq]; exact Nat.le_trans (Nat.min_le_right _ _) (Nat.mul_le_mul_right _ hcount)
    have hlen : (recs.flatten.take q).length = q := by rw [List.length_take]; omega
    rw [hlen]
    have hdvd : q % h.recLen = 0 := by
      have := hmod
      rw [hav, hlen] at this
      by_cases hz : q % h.recLen = 0
      · exact hz
      · exact absurd ⟨hne, hz⟩ this
    -- q = j * recLen with j ≤ recs.length
    have hj : q = (q / h.recLen) * h.recLen := by
      have := Nat.div_add_mod q h.recLen; rw [hdvd] at this; rw [Nat.mul_comm]; omega
    have hjle : q / h.recLen ≤ recs.length := by
      apply Nat.div_le_of_le_mul; rw [Nat.mul_comm, ← hflat]; exact hqle
    -- splitting the first j records' bytes gives the first j records
    have htake : recs.flatten.take q = (recs.take (q / h.recLen)).flatten := by
      have : ∀ (l : List Rec) (j : Nat), (∀ r ∈ l, r.length = h.recLen) → j ≤ l.length →
          l.flatten.take (j * h.recLen) = (l.take j).flatten := by
        intro l
        induction l with
        | nil => intro j _ hj; simp at hj; subst hj; simp
        | cons r rs ih =>
          intro j hl hj
          cases j with
          | zero => simp
          | succ j =>
            have hr : r.length = h.recLen := hl r (by simp)
            simp only [List.flatten_cons, List.take_succ_cons]
            have e : (j + 1) * h.recLen = r.length + j * h.recLen := by rw [Nat.succ_mul, hr, Nat.add_comm]
            rw [e, List.take_length_add_append]
            rw [ih j (fun x hx => hl x (by simp [hx])) (by simpa using hj)]
      rw [hj]
      have := this recs (q / h.recLen) hrec hjle
      rw [Nat.mul_div_cancel _ hpos]
      exact this
    rw [htake]
    have hsplit := splitRecs_flatten (recs.take (q / h.recLen)) h.recLen
      (fun r hr => hrec r (List.mem_of_mem_take hr)) []
    simp only [List.append_nil, List.length_take, Nat.min_eq_left hjle] at hsplit
    rw [hsplit]
    exact ⟨recs.drop (q / h.recLen), List.take_append_drop _ _⟩

/-- the image of a destination that received only a prefix of the initial sequential stream
    is a prefix of that stream -/
theorem image_single (data : Bytes) (k : Nat) : image [] [(0, data)] k = data.take k := by
  unfold image
  by_cases h0 : k = 0
  · simp [h0]
  · simp only [h0, if_false]
    by_cases hk : k < data.length
    · simp only [hk, if_true]
      unfold writeAt; simp
    · simp only [hk, if_false]
      unfold image writeAt
      simp
      rw [List.take_of_length_le (by omega)]

/-! ### torn header rewrites: field extraction, mixing, the end-to-end statement -/

def sumL : List Nat → Nat
  | [] => 0
  | w :: ws => w + sumL ws

theorem decInts_rest (ws : List Nat) (bs : Bytes) : (decInts ws bs).2 = bs.drop (sumL ws) := by
  induction ws generalizing bs with
  | nil => simp [decInts, sumL]
  | cons w ws ih =>
    simp only [decInts, readLE, sumL]
    rw [ih, List.drop_drop]

/-- **field extraction**: the `i`-th integer read sequentially is the little-endian value of the
    bytes at its layout position -/
theorem decInts_getD (ws : List Nat) (bs : Bytes) (i : Nat) (hi : i < ws.length) :
    (decInts ws bs).1.getD i 0 = leNat ((bs.drop (sumL (ws.take i))).take (ws.getD i 0)) := by
  induction ws generalizing bs i with
  | nil => simp at hi
  | cons w ws ih =>
    cases i with
    | zero => simp [decInts, readLE, sumL]
    | succ i =>
      simp only [decInts, readLE, List.getD_cons_succ, List.take_succ_cons, sumL]
      rw [ih _ i (by simpa using hi), List.drop_drop]

theorem sysLen : Gen.SYSTEM_IDENTIFIER_LEN = 32 := by decide
theorem softLen : Gen.GENERATING_SOFTWARE_LEN = 32 := by decide

/-- the integers of the numeric block, as `read_from` sees them -/
def cOf (buf : Bytes) : List Nat := (decInts (widthsC (leNat ((buf.drop 25).take 1))) (buf.drop 90)).1

theorem parseHdr_fields (buf : Bytes) (h : Hdr) (hp : parseHdr buf = .ok h) :
    h.vMinor = leNat ((buf.drop 25).take 1) ∧
    h.recLen = (cOf buf).getD 6 0 ∧
    h.count = (if h.vMinor ≥ 4 then (cOf buf).getD 28 0 else (cOf buf).getD 7 0) := by
  unfold parseHdr at hp
  simp only [readN, readString, decInts_rest, sumL, List.drop_drop, sysLen, softLen] at hp
  have hm : (decInts [1, 1] (List.drop (4 + (2 + (2 + 0)) + 16) buf)).fst.getD 1 0 = leNat ((buf.drop 25).take 1) := by
    rw [decInts_getD _ _ 1 (by decide)]
    simp [sumL, List.drop_drop]
  simp only [hm] at hp
  have h90 : 4 + (2 + (2 + 0)) + 16 + (1 + (1 + 0)) + 32 + 32 = 90 := by decide
  simp only [h90] at hp
  change (if _ then _ else _) = _ at hp
  generalize hc : (decInts (widthsC (leNat ((buf.drop 25).take 1))) (buf.drop 90)).1 = c at hp
  have hcc : cOf buf = c := hc
  rw [hcc]
  split at hp
  · cases hp
  · split at hp
    · cases hp
    · injection hp with hp
      subst hp
      simp only
      refine ⟨trivial, trivial, ?_⟩
      by_cases h4 : leNat ((buf.drop 25).take 1) ≥ 4
      · have h3 : leNat ((buf.drop 25).take 1) ≥ 3 := by omega
        simp only [h4, h3, if_true]
        simp [List.getD_eq_getElem?_getD, List.getElem?_drop]
      · simp only [h4, if_false]


/-- **mixing lemma**: a slice of a buffer whose first `j` bytes come from `A` and the rest from `B`
    is the same mixture of the two slices -/
theorem mix_slice (A B : Bytes) (hl : A.length = B.length) (j p w : Nat) (hj : j ≤ A.length) :
    ((A.take j ++ B.drop j).drop p).take w =
      ((A.drop p).take w).take (j - p) ++ ((B.drop p).take w).drop (j - p) := by
  have la : (A.take j).length = j := by simp [List.length_take]; omega
  rw [List.drop_append, List.take_append, la]
  congr 1
  · rw [List.drop_take, List.take_take, List.take_take, Nat.min_comm]
  · have e1 : j + (p - j) = p + (j - p) := by omega
    have e2 : w - (List.drop p (List.take j A)).length = w - (j - p) := by
      simp only [List.length_take, List.length_drop]; omega
    rw [e2, List.drop_drop, e1]
    conv => rhs; rw [List.drop_take, List.drop_drop]

/-- where the two buffers agree on the slice, so does the mixture -/
theorem mix_slice_same (A B : Bytes) (hl : A.length = B.length) (j p w : Nat) (hj : j ≤ A.length)
    (hs : (A.drop p).take w = (B.drop p).take w) :
    ((A.take j ++ B.drop j).drop p).take w = (B.drop p).take w := by
  rw [mix_slice A B hl j p w hj, hs, List.take_append_drop]


/-- bytes `[p, p+w)` -/
def slice (p w : Nat) (bs : Bytes) : Bytes := (bs.drop p).take w

theorem slice_append_left (p w : Nat) (a b : Bytes) (h : p + w ≤ a.length) : slice p w (a ++ b) = slice p w a := by
  unfold slice
  rw [List.drop_append, List.take_append]
  have : w - (a.drop p).length = 0 := by simp only [List.length_drop]; omega
  rw [this]; simp

theorem widthsC_length (m : Nat) : 25 ≤ (widthsC m).length := by
  unfold widthsC; simp

theorem cOf_recLen (buf : Bytes) : (cOf buf).getD 6 0 = leNat (slice 105 2 buf) := by
  unfold cOf slice
  rw [decInts_getD _ _ 6 (by have := widthsC_length (leNat ((buf.drop 25).take 1)); omega)]
  simp [widthsC, sumL, List.drop_drop]

theorem cOf_legacyCount (buf : Bytes) : (cOf buf).getD 7 0 = leNat (slice 107 4 buf) := by
  unfold cOf slice
  rw [decInts_getD _ _ 7 (by have := widthsC_length (leNat ((buf.drop 25).take 1)); omega)]
  simp [widthsC, sumL, List.drop_drop]

theorem cOf_count14 (buf : Bytes) (h4 : leNat ((buf.drop 25).take 1) ≥ 4) : (cOf buf).getD 28 0 = leNat (slice 247 8 buf) := by
  unfold cOf slice
  have h3 : leNat ((buf.drop 25).take 1) ≥ 3 := by omega
  rw [decInts_getD _ _ 28 (by unfold widthsC; simp [h3, h4])]
  simp [widthsC, sumL, List.drop_drop, h3, h4]


theorem slice_mix_same (A B body : Bytes) (hl : A.length = B.length) (j p w : Nat) (hj : j ≤ A.length)
    (hp : p + w ≤ A.length) (hs : slice p w A = slice p w B) :
    slice p w (A.take j ++ B.drop j ++ body) = slice p w B := by
  have hlen : (A.take j ++ B.drop j).length = A.length := by
    simp only [List.length_append, List.length_take, List.length_drop]; omega
  rw [slice_append_left p w _ body (by omega)]
  exact mix_slice_same A B hl j p w hj hs

theorem slice_mix (A B body : Bytes) (hl : A.length = B.length) (j p w : Nat) (hj : j ≤ A.length)
    (hp : p + w ≤ A.length) :
    slice p w (A.take j ++ B.drop j ++ body) = (slice p w A).take (j - p) ++ (slice p w B).drop (j - p) := by
  have hlen : (A.take j ++ B.drop j).length = A.length := by
    simp only [List.length_append, List.length_take, List.length_drop]; omega
  rw [slice_append_left p w _ body (by omega)]
  exact mix_slice A B hl j p w hj

/-- **C19, the header rewrite** (the only moment a writer or appender session has a header that
    advertises more than zero new points): the destination holds the first `j` bytes of the new
    header over the old one — any `j`, so every field is old, new or torn. If old and new headers
    agree on the version byte, the offset and the record length, and the point counter goes from
    `m` to `n` with `m ≤ n ≤` the number of records stored, then reading the file fails or returns a
    prefix of the stored records. -/
theorem C19_header_rewrite (new old body : Bytes) (recs : List Rec) (tail : Bytes) (j off recLen m n : Nat)
    (hlen : new.length = old.length) (hoff : new.length = off) (h227 : 227 ≤ off) (hj : j ≤ new.length)
    (present : Nat) (hbody : body = (recs.flatten ++ tail).take present)
    (hpos : 0 < recLen) (hrec : ∀ r ∈ recs, r.length = recLen)
    (hminor : slice 25 1 new = slice 25 1 old)
    (hoffs : slice 96 4 new = slice 96 4 old) (hoffv : leNat (slice 96 4 old) = off)
    (hrl : slice 105 2 new = slice 105 2 old) (hrlv : leNat (slice 105 2 old) = recLen)
    (hmn : m ≤ n) (hn : n ≤ recs.length)
    (hcount : if leNat (slice 25 1 old) ≥ 4
      then slice 247 8 new = leBytes 8 n ∧ slice 247 8 old = leBytes 8 m ∧ n < 256 ^ 8
      else slice 107 4 new = leBytes 4 n ∧ slice 107 4 old = leBytes 4 m ∧ n < 256 ^ 4) :
    (∃ e, readFile (new.take j ++ old.drop j ++ body) = .error e) ∨
    (∃ r, readFile (new.take j ++ old.drop j ++ body) = .ok r ∧ IsPrefix r.records recs) := by
  generalize himg : new.take j ++ old.drop j ++ body = img
  have hM : (new.take j ++ old.drop j).length = off := by
    simp only [List.length_append, List.length_take, List.length_drop]; omega
  have s_minor : slice 25 1 img = slice 25 1 old := by
    rw [← himg]; exact slice_mix_same new old body hlen j 25 1 hj (by omega) hminor
  have s_off : slice 96 4 img = slice 96 4 old := by
    rw [← himg]; exact slice_mix_same new old body hlen j 96 4 hj (by omega) hoffs
  have s_rl : slice 105 2 img = slice 105 2 old := by
    rw [← himg]; exact slice_mix_same new old body hlen j 105 2 hj (by omega) hrl
  have hfo : fileOffset img = off := by
    unfold fileOffset; rw [← hoffv, ← s_off]; rfl
  unfold readFile
  cases hd : decodeHdr img with
  | error e => exact Or.inl ⟨_, rfl⟩
  | ok h =>
    simp only
    -- the prefetched buffer is exactly the (mixed) header
    unfold decodeHdr at hd
    cases hpf : prefetch img with
    | error e => rw [hpf] at hd; cases hd
    | ok buf =>
      rw [hpf] at hd
      simp only at hd
      have hbuf : buf = new.take j ++ old.drop j := by
        unfold prefetch at hpf
        simp only at hpf
        split at hpf
        · cases hpf
        · split at hpf
          · cases hpf
          · split at hpf
            · cases hpf
            · injection hpf with hpf
              have h1 : (List.drop 96 (List.take 227 img)).take 4 = slice 96 4 img := by
                unfold slice
                rw [List.drop_take, List.take_take]
                simp
              rw [h1, s_off, hoffv] at hpf
              have : off ≥ 227 := by omega
              simp only [this, if_true] at hpf
              rw [← hpf, ← himg, List.take_append_of_le_length (by omega), ← hM, List.take_length]
      obtain ⟨f1, f2, f3⟩ := parseHdr_fields buf h hd
      have b_minor : slice 25 1 buf = slice 25 1 old := by
        rw [hbuf, ← s_minor, ← himg, slice_append_left 25 1 _ body (by omega)]
      have b_rl : slice 105 2 buf = slice 105 2 old := by
        rw [hbuf, ← s_rl, ← himg, slice_append_left 105 2 _ body (by omega)]
      have hminorv : h.vMinor = leNat (slice 25 1 old) := by rw [f1, ← b_minor]; rfl
      have hrecLen : h.recLen = recLen := by rw [f2, cOf_recLen, b_rl, hrlv]
      have hcnt : h.count ≤ n := by
        rw [f3]
        by_cases h4 : h.vMinor ≥ 4
        · have h4' : leNat (slice 25 1 old) ≥ 4 := by omega
          simp only [h4, if_true]
          simp only [h4', if_true] at hcount
          obtain ⟨c1, c2, c3⟩ := hcount
          rw [cOf_count14 buf (by rw [← f1]; exact h4), hbuf]
          have := mix_slice new old hlen j 247 8 hj
          unfold slice at c1 c2 ⊢
          rw [this, c1, c2]
          exact torn_counter 8 m n (j - 247) hmn c3
        · have h4' : ¬ leNat (slice 25 1 old) ≥ 4 := by omega
          simp only [h4, if_false]
          simp only [h4', if_false] at hcount
          obtain ⟨c1, c2, c3⟩ := hcount
          rw [cOf_legacyCount buf, hbuf]
          have := mix_slice new old hlen j 107 4 hj
          unfold slice at c1 c2 ⊢
          rw [this, c1, c2]
          exact torn_counter 4 m n (j - 107) hmn c3
      unfold readBody
      split
      · exact Or.inl ⟨_, rfl⟩
      · split
        · exact Or.inl ⟨_, rfl⟩
        · have harea : img.drop off = (recs.flatten ++ tail).take present := by
            rw [← himg, ← hbody, ← hM, List.drop_left]
          rcases C19_records_prefix h off img recs tail present (by rw [hrecLen]; exact hpos)
              (by intro r hr; rw [hrecLen]; exact hrec r hr) harea (Nat.le_trans hcnt hn) with ⟨e, he⟩ | ⟨rs, hrs, hpre⟩
          · left; rw [hfo, he]; exact ⟨_, rfl⟩
          · right; rw [hfo, hrs]; exact ⟨_, rfl, hpre⟩


theorem slice_append_right (p w : Nat) (a b : Bytes) (h : a.length ≤ p) : slice p w (a ++ b) = slice (p - a.length) w b := by
  unfold slice
  rw [List.drop_append, List.drop_of_length_le h]
  simp

theorem slice_head (w n : Nat) (rest : Bytes) : slice 0 w (leBytes w n ++ rest) = leBytes w n := by
  unfold slice
  simp only [List.drop_zero]
  rw [List.take_append_of_le_length (by simp)]
  exact List.take_of_length_le (by simp)

theorem encInts_append (a b : List (Nat × Nat)) : encInts (a ++ b) = encInts a ++ encInts b := by
  induction a with
  | nil => rfl
  | cons x xs ih => obtain ⟨w, n⟩ := x; simp [encInts, ih, List.append_assoc]

theorem encInts_map_len (l : List Nat) (w : Nat) : (encInts (l.map fun d => (w, d))).length = w * l.length := by
  induction l with
  | nil => rfl
  | cons x xs ih => simp only [List.map_cons, encInts, List.length_append, leBytes_length, ih, List.length_cons]; rw [Nat.mul_succ]; omega

theorem legacy_len (h : Hdr) (hw : h.WF) : (encInts (legacyInts h)).length = 24 := by
  unfold legacyInts
  split
  · simp [encInts, List.replicate]
  · have : (h.byReturn.take 5).length = 5 := by simp [List.length_take, hw.ret.1]
    simp only [encInts, List.length_append, leBytes_length, encInts_map_len, this]

/-- the layout facts about a written header that the crash argument needs -/
theorem encForm_slices (h : Hdr) (hw : h.WF) (vb : Bytes) :
    slice 25 1 (encForm h vb) = leBytes 1 h.vMinor ∧
    slice 96 4 (encForm h vb) = leBytes 4 (base h.vMinor + h.extraHeader.length + vb.length + h.extraVlr.length) ∧
    slice 105 2 (encForm h vb) = leBytes 2 h.recLen ∧
    slice 107 4 (encForm h vb) = leBytes 4 (if h.vMinor ≥ 4 then 0 else h.count) ∧
    (h.vMinor ≥ 4 → slice 247 8 (encForm h vb) = leBytes 8 h.count) := by
  have lsig : Gen.fileSignature.length = 4 := by decide
  have lA : (encInts [(2, h.fileSourceId), (2, h.globalEncoding)]).length = 4 := by simp [encInts]
  have lG := hw.guid
  have lB : (encInts [(1, h.vMajor), (1, h.vMinor)]).length = 2 := by simp [encInts]
  have lY := (readString_writeString h.systemId 32 [] hw.sys.1 hw.sys.2).1
  have lW := (readString_writeString h.software 32 [] hw.soft.1 hw.soft.2).1
  unfold encForm
  refine ⟨?_, ?_, ?_, ?_, ?_⟩
  · rw [slice_append_right _ _ _ _ (by omega), slice_append_right _ _ _ _ (by omega),
      slice_append_right _ _ _ _ (by omega), lsig, lA, lG]
    simp only [encInts, List.append_assoc]
    rw [slice_append_right _ _ _ _ (by simp)]
    simp only [leBytes_length]
    exact slice_head 1 _ _
  all_goals
    rw [slice_append_right _ _ _ _ (by omega), slice_append_right _ _ _ _ (by omega),
      slice_append_right _ _ _ _ (by omega), slice_append_right _ _ _ _ (by omega),
      slice_append_right _ _ _ _ (by omega), slice_append_right _ _ _ _ (by omega), lsig, lA, lG, lB, lY, lW]
    unfold blockC
    simp only [List.cons_append, List.nil_append, encInts, List.append_assoc]
  · -- offset: after doy, year, hsize
    rw [slice_append_right _ _ _ _ (by simp), slice_append_right _ _ _ _ (by simp), slice_append_right _ _ _ _ (by simp)]
    simp only [leBytes_length]
    exact slice_head 4 _ _
  · rw [slice_append_right _ _ _ _ (by simp), slice_append_right _ _ _ _ (by simp), slice_append_right _ _ _ _ (by simp),
      slice_append_right _ _ _ _ (by simp), slice_append_right _ _ _ _ (by simp), slice_append_right _ _ _ _ (by simp)]
    simp only [leBytes_length]
    exact slice_head 2 _ _
  · rw [slice_append_right _ _ _ _ (by simp), slice_append_right _ _ _ _ (by simp), slice_append_right _ _ _ _ (by simp),
      slice_append_right _ _ _ _ (by simp), slice_append_right _ _ _ _ (by simp), slice_append_right _ _ _ _ (by simp),
      slice_append_right _ _ _ _ (by simp)]
    simp only [leBytes_length]
    rw [encInts_append]
    unfold legacyInts
    split
    · simp only [encInts, List.append_assoc]; exact slice_head 4 _ _
    · simp only [encInts, List.append_assoc]; exact slice_head 4 _ _
  · intro h4
    have h3 : h.vMinor ≥ 3 := by omega
    rw [slice_append_right _ _ _ _ (by simp), slice_append_right _ _ _ _ (by simp), slice_append_right _ _ _ _ (by simp),
      slice_append_right _ _ _ _ (by simp), slice_append_right _ _ _ _ (by simp), slice_append_right _ _ _ _ (by simp),
      slice_append_right _ _ _ _ (by simp)]
    simp only [leBytes_length]
    rw [encInts_append, encInts_append, List.append_assoc, List.append_assoc]
    have lD : (encInts (h.doubles.map fun d => (8, d))).length = 96 := by rw [encInts_map_len, hw.doubles.1]
    rw [slice_append_right _ _ _ _ (by rw [legacy_len h hw]; decide), legacy_len h hw,
      slice_append_right _ _ _ _ (by rw [lD]; decide), lD]
    unfold tailInts
    simp only [h3, h4, if_true, List.cons_append, List.nil_append, encInts, List.append_assoc]
    rw [slice_append_right _ _ _ _ (by simp), slice_append_right _ _ _ _ (by simp), slice_append_right _ _ _ _ (by simp)]
    simp only [leBytes_length]
    exact slice_head 8 _ _


theorem base_ge (m : Nat) (hm : 1 ≤ m ∧ m ≤ 4) : 227 ≤ base m ∧ (m ≥ 4 → 255 ≤ base m) := by
  obtain ⟨h1, h4⟩ := hm
  have : m = 1 ∨ m = 2 ∨ m = 3 ∨ m = 4 := by omega
  rcases this with rfl | rfl | rfl | rfl <;> decide

/-- **C19 for header rewrites of real sessions**: `h` is the header the file carries (count `h.count`:
    zero for a writer session, the original count for an append session), the session rewrites it in
    place with new statistics (count `n`, per-return counts, extrema, EVLR pointer). Whatever prefix of
    that rewrite reaches the destination, reading the file fails or returns a prefix of the records
    stored after the header — never a point that was not written. -/
theorem C19_rewrite_session (h : Hdr) (hw : h.WF) (vb : Bytes)
    (n : Nat) (byReturn doubles : List Nat) (evlrStart nEvlrs : Nat)
    (hw' : (C07.withStats h n byReturn doubles evlrStart nEvlrs).WF)
    (hoff32 : base h.vMinor + h.extraHeader.length + vb.length + h.extraVlr.length < 2 ^ 32)
    (recs : List Rec) (tail : Bytes) (j : Nat)
    (hj : j ≤ (encForm (C07.withStats h n byReturn doubles evlrStart nEvlrs) vb).length)
    (hpos : 0 < h.recLen) (hrec : ∀ r ∈ recs, r.length = h.recLen)
    (hmn : h.count ≤ n) (hn : n ≤ recs.length) :
    let img := (encForm (C07.withStats h n byReturn doubles evlrStart nEvlrs) vb).take j ++ (encForm h vb).drop j ++ (recs.flatten ++ tail)
    (∃ e, readFile img = .error e) ∨ (∃ r, readFile img = .ok r ∧ IsPrefix r.records recs) := by
  intro img
  have e_minor : (C07.withStats h n byReturn doubles evlrStart nEvlrs).vMinor = h.vMinor := rfl
  have e_eh : (C07.withStats h n byReturn doubles evlrStart nEvlrs).extraHeader = h.extraHeader := rfl
  have e_ev : (C07.withStats h n byReturn doubles evlrStart nEvlrs).extraVlr = h.extraVlr := rfl
  have e_rl : (C07.withStats h n byReturn doubles evlrStart nEvlrs).recLen = h.recLen := rfl
  have e_ct : (C07.withStats h n byReturn doubles evlrStart nEvlrs).count = n := rfl
  have l0 := encForm_length h hw vb
  have l1 := encForm_length _ hw' vb
  rw [e_minor, e_eh, e_ev] at l1
  obtain ⟨a1, a2, a3, a4, a5⟩ := encForm_slices h hw vb
  obtain ⟨b1, b2, b3, b4, b5⟩ := encForm_slices _ hw' vb
  rw [e_minor] at b1 b4 b5
  rw [e_minor, e_eh, e_ev] at b2
  rw [e_rl] at b3
  rw [e_ct] at b4 b5
  have hb := base_ge h.vMinor hw.minor
  have hmin : leNat (slice 25 1 (encForm h vb)) = h.vMinor := by
    rw [a1, leNat_leBytes_of_lt]; have := hw.minor.2; omega
  refine C19_header_rewrite _ _ _ recs tail j
      (base h.vMinor + h.extraHeader.length + vb.length + h.extraVlr.length) h.recLen h.count n
      (by rw [l0, l1]) l1 (by omega) hj (recs.flatten ++ tail).length List.take_length.symm hpos hrec (by rw [a1, b1]) (by rw [a2, b2])
      (by rw [a2, leNat_leBytes_of_lt _ _ (by simpa using hoff32)]) (by rw [a3, b3])
      (by rw [a3, leNat_leBytes_of_lt _ _ (by have := hw.recLen; simpa using this)]) hmn hn ?_
  rw [hmin]
  by_cases h4 : h.vMinor ≥ 4
  · simp only [h4, if_true]
    refine ⟨b5 h4, a5 h4, ?_⟩
    have := hw'.count
    rw [e_ct, e_minor] at this
    simp only [maxPointCount] at this
    have h3 : ¬ h.vMinor ≤ 3 := by omega
    simp only [h3, if_false] at this
    omega
  · simp only [h4, if_false]
    simp only [h4, if_false] at a4 b4
    refine ⟨b4, a4, ?_⟩
    have := hw'.count
    rw [e_ct, e_minor] at this
    simp only [maxPointCount] at this
    have h3 : h.vMinor ≤ 3 := by omega
    simp only [h3, if_true] at this
    omega


/-- the same with only the first `present` bytes of the record area in the file (a session whose last write was cut
    short, then closed): the header may advertise more records than are stored -/
theorem C19_rewrite_session_cut (h : Hdr) (hw : h.WF) (vb : Bytes)
    (n : Nat) (byReturn doubles : List Nat) (evlrStart nEvlrs : Nat)
    (hw' : (C07.withStats h n byReturn doubles evlrStart nEvlrs).WF)
    (hoff32 : base h.vMinor + h.extraHeader.length + vb.length + h.extraVlr.length < 2 ^ 32)
    (recs : List Rec) (tail : Bytes) (present : Nat) (j : Nat)
    (hj : j ≤ (encForm (C07.withStats h n byReturn doubles evlrStart nEvlrs) vb).length)
    (hpos : 0 < h.recLen) (hrec : ∀ r ∈ recs, r.length = h.recLen)
    (hmn : h.count ≤ n) (hn : n ≤ recs.length) :
    let img := (encForm (C07.withStats h n byReturn doubles evlrStart nEvlrs) vb).take j ++ (encForm h vb).drop j ++ (recs.flatten ++ tail).take present
    (∃ e, readFile img = .error e) ∨ (∃ r, readFile img = .ok r ∧ IsPrefix r.records recs) := by
  intro img
  have e_minor : (C07.withStats h n byReturn doubles evlrStart nEvlrs).vMinor = h.vMinor := rfl
  have e_eh : (C07.withStats h n byReturn doubles evlrStart nEvlrs).extraHeader = h.extraHeader := rfl
  have e_ev : (C07.withStats h n byReturn doubles evlrStart nEvlrs).extraVlr = h.extraVlr := rfl
  have e_rl : (C07.withStats h n byReturn doubles evlrStart nEvlrs).recLen = h.recLen := rfl
  have e_ct : (C07.withStats h n byReturn doubles evlrStart nEvlrs).count = n := rfl
  have l0 := encForm_length h hw vb
  have l1 := encForm_length _ hw' vb
  rw [e_minor, e_eh, e_ev] at l1
  obtain ⟨a1, a2, a3, a4, a5⟩ := encForm_slices h hw vb
  obtain ⟨b1, b2, b3, b4, b5⟩ := encForm_slices _ hw' vb
  rw [e_minor] at b1 b4 b5
  rw [e_minor, e_eh, e_ev] at b2
  rw [e_rl] at b3
  rw [e_ct] at b4 b5
  have hb := base_ge h.vMinor hw.minor
  have hmin : leNat (slice 25 1 (encForm h vb)) = h.vMinor := by
    rw [a1, leNat_leBytes_of_lt]; have := hw.minor.2; omega
  refine C19_header_rewrite _ _ _ recs tail j
      (base h.vMinor + h.extraHeader.length + vb.length + h.extraVlr.length) h.recLen h.count n
      (by rw [l0, l1]) l1 (by omega) hj present rfl hpos hrec (by rw [a1, b1]) (by rw [a2, b2])
      (by rw [a2, leNat_leBytes_of_lt _ _ (by simpa using hoff32)]) (by rw [a3, b3])
      (by rw [a3, leNat_leBytes_of_lt _ _ (by have := hw.recLen; simpa using this)]) hmn hn ?_
  rw [hmin]
  by_cases h4 : h.vMinor ≥ 4
  · simp only [h4, if_true]
    refine ⟨b5 h4, a5 h4, ?_⟩
    have := hw'.count
    rw [e_ct, e_minor] at this
    simp only [maxPointCount] at this
    have h3 : ¬ h.vMinor ≤ 3 := by omega
    simp only [h3, if_false] at this
    omega
  · simp only [h4, if_false]
    simp only [h4, if_false] at a4 b4
    refine ⟨b4, a4, ?_⟩
    have := hw'.count
    rw [e_ct, e_minor] at this
    simp only [maxPointCount] at this
    have h3 : h.vMinor ≤ 3 := by omega
    simp only [h3, if_true] at this
    omega



/-- **a file that ends before its first point record** (an interrupted initial header / VLR write, or a
    truncation inside the header): reading fails or returns no point at all -/
theorem C19_short_file (img : Bytes) (h : img.length ≤ fileOffset img) :
    (∃ e, readFile img = .error e) ∨ (∃ r, readFile img = .ok r ∧ r.records = []) := by
  unfold readFile
  cases hd : decodeHdr img with
  | error e => exact Or.inl ⟨_, rfl⟩
  | ok hdr =>
    simp only
    unfold readBody
    split
    · exact Or.inl ⟨_, rfl⟩
    · split
      · exact Or.inl ⟨_, rfl⟩
      · have hdrop : img.drop (fileOffset img) = [] := List.drop_of_length_le h
        unfold readRecords
        simp only [hdrop, List.take_nil, List.length_nil, Nat.zero_mod, ne_eq, not_true_eq_false, and_false, if_false,
          Nat.zero_div]
        right
        refine ⟨_, rfl, ?_⟩
        simp only
        split <;> simp [splitRecs]


theorem image_zero (s : Bytes) (l : List Write) : image s l 0 = s := by
  cases l with
  | nil => rfl
  | cons w ws => obtain ⟨p, d⟩ := w; simp [image]

/-- the image of a store under sequential appends starting at its end -/
theorem image_seq (store : Bytes) (cs : List Bytes) (rest : List Write) (k : Nat) :
    image store (writerLog.go store.length cs ++ rest) k =
      if k < cs.flatten.length then store ++ cs.flatten.take k
      else image (store ++ cs.flatten) rest (k - cs.flatten.length) := by
  induction cs generalizing store k with
  | nil => simp [writerLog.go]
  | cons c cs ih =>
    simp only [writerLog.go, List.cons_append, image, List.flatten_cons, List.length_append]
    have hw : ∀ d : Bytes, writeAt store store.length d = store ++ d := by
      intro d
      have := writeAt_append store [] d
      simpa using this
    by_cases hk0 : k = 0
    · subst hk0
      simp only [if_true]
      split
      · simp
      · next hz =>
        rw [Nat.zero_sub, image_zero]
        have hf : c ++ cs.flatten = [] := List.length_eq_zero_iff.mp (by simp only [List.length_append]; omega)
        rw [hf]; simp
    · simp only [hk0, if_false]
      by_cases hkc : k < c.length
      · have : k < c.length + cs.flatten.length := by omega
        simp only [hkc, this, if_true, hw]
        rw [List.take_append_of_le_length (by omega)]
      · simp only [hkc, if_false, hw]
        have hl : (store ++ c).length = store.length + c.length := by simp
        rw [← hl, ih (store ++ c) (k - c.length)]
        by_cases hk2 : k - c.length < cs.flatten.length
        · have : k < c.length + cs.flatten.length := by omega
          simp only [hk2, this, if_true, List.append_assoc]
          congr 1
          rw [List.take_append, List.take_of_length_le (by omega : c.length ≤ k)]
        · have : ¬ k < c.length + cs.flatten.length := by omega
          simp only [hk2, this, if_false, List.append_assoc]
          congr 1
          omega


theorem go_append_single (pos : Nat) (cs : List Bytes) (e : Bytes) :
    writerLog.go pos (cs ++ [e]) = writerLog.go pos cs ++ [(pos + cs.flatten.length, e)] := by
  induction cs generalizing pos with
  | nil => simp [writerLog.go]
  | cons c cs ih =>
    simp only [List.cons_append, writerLog.go, ih, List.flatten_cons, List.length_append]
    rw [Nat.add_assoc]

theorem readFile_tiny (img : Bytes) (h : img.length < 227) : ∃ e, readFile img = .error e := by
  have hp : ∃ e, prefetch img = .error e := by
    unfold prefetch
    simp only
    split
    · exact ⟨_, rfl⟩
    · split
      · exact ⟨_, rfl⟩
      · have : (img.take 227).length < 227 := by simp [List.length_take]; omega
        simp only [this, if_true]
        exact ⟨_, rfl⟩
  obtain ⟨e, he⟩ := hp
  unfold readFile decodeHdr
  rw [he]
  exact ⟨_, rfl⟩

theorem withStats_self (h : Hdr) : C07.withStats h h.count h.byReturn h.doubles h.evlrStart h.nEvlrs = h := by
  cases h; rfl

theorem isPrefix_nil {α} (l : List α) : IsPrefix ([] : List α) l := ⟨l, rfl⟩

/-- **C19, every crash point of a writer session.** The session writes the initial header (count 0)
    and VLRs, the record chunks, the EVLR bytes, and finally the header again with the final
    statistics. Whatever number `k` of bytes of that write stream reached the destination, reading
    it fails or returns a prefix of the records the session was storing. -/
theorem C19_writer_crash (h0 : Hdr) (hw0 : h0.WF) (hc0 : h0.count = 0) (vb : Bytes)
    (byReturn doubles : List Nat) (evlrStart nEvlrs : Nat) (recs : List Rec)
    (hw' : (C07.withStats h0 recs.length byReturn doubles evlrStart nEvlrs).WF)
    (hoff32 : base h0.vMinor + h0.extraHeader.length + vb.length + h0.extraVlr.length < 2 ^ 32)
    (chunks : List Bytes) (hch : chunks.flatten = recs.flatten) (eb : Bytes)
    (hpos : 0 < h0.recLen) (hrec : ∀ r ∈ recs, r.length = h0.recLen) (k : Nat) :
    let img := image [] (writerLog (encForm h0 vb) chunks eb
      (encForm (C07.withStats h0 recs.length byReturn doubles evlrStart nEvlrs) vb)) k
    (∃ e, readFile img = .error e) ∨ (∃ r, readFile img = .ok r ∧ IsPrefix r.records recs) := by
  intro img
  have himg : img = image [] (writerLog (encForm h0 vb) chunks eb
      (encForm (C07.withStats h0 recs.length byReturn doubles evlrStart nEvlrs) vb)) k := rfl
  clear_value img
  generalize hF : C07.withStats h0 recs.length byReturn doubles evlrStart nEvlrs = hf at *
  have l0 := encForm_length h0 hw0 vb
  have l1 : (encForm hf vb).length = (encForm h0 vb).length := by
    rw [l0, ← hF]; exact encForm_length _ (hF ▸ hw') vb
  have hb := base_ge h0.vMinor hw0.minor
  -- the header-rewrite shape, for any j
  have shape3 : ∀ j, j ≤ (encForm hf vb).length →
      (∃ e, readFile ((encForm hf vb).take j ++ (encForm h0 vb).drop j ++ (recs.flatten ++ eb)) = .error e) ∨
      (∃ r, readFile ((encForm hf vb).take j ++ (encForm h0 vb).drop j ++ (recs.flatten ++ eb)) = .ok r ∧ IsPrefix r.records recs) := by
    intro j hj
    subst hF
    exact C19_rewrite_session h0 hw0 vb recs.length byReturn doubles evlrStart nEvlrs hw' hoff32 recs eb j hj hpos hrec
      (by omega) (Nat.le_refl _)
  -- the shape before the rewrite: the initial header followed by anything
  have shape2 : ∀ t : Bytes,
      (∃ e, readFile (encForm h0 vb ++ t) = .error e) ∨
      (∃ r, readFile (encForm h0 vb ++ t) = .ok r ∧ IsPrefix r.records recs) := by
    intro t
    have := C19_rewrite_session h0 hw0 vb h0.count h0.byReturn h0.doubles h0.evlrStart h0.nEvlrs
      (by rw [withStats_self]; exact hw0) hoff32 [] t 0 (Nat.zero_le _) hpos (by intro r hr; cases hr) (Nat.le_refl _)
      (by rw [hc0]; exact Nat.zero_le _)
    simp only [List.take_zero, List.drop_zero, List.nil_append, List.flatten_nil] at this
    rcases this with h | ⟨r, hr, ⟨t', ht'⟩⟩
    · exact Or.inl h
    · have : r.records = [] := by
        cases hrr : r.records with
        | nil => rfl
        | cons x xs => rw [hrr] at ht'; cases ht'
      exact Or.inr ⟨r, hr, by rw [this]; exact isPrefix_nil recs⟩
  unfold writerLog at himg
  simp only [List.cons_append, image] at himg
  by_cases hk0 : k = 0
  · simp only [hk0, if_true] at himg
    rw [himg]; exact Or.inl (readFile_tiny [] (by decide))
  · simp only [hk0, if_false] at himg
    by_cases hk1 : k < (encForm h0 vb).length
    · simp only [hk1, if_true] at himg
      have hwr : writeAt [] 0 ((encForm h0 vb).take k) = (encForm h0 vb).take k := by
        unfold writeAt; simp
      rw [hwr] at himg
      by_cases h227 : k < 227
      · rw [himg]; exact Or.inl (readFile_tiny _ (by simp [List.length_take]; omega))
      · have hfo : fileOffset img = (encForm h0 vb).length := by
          rw [himg]
          unfold fileOffset
          have hs : (((encForm h0 vb).take k).drop 96).take 4 = slice 96 4 (encForm h0 vb) := by
            unfold slice
            rw [List.drop_take, List.take_take]
            congr 1; omega
          rw [hs, (encForm_slices h0 hw0 vb).2.1, leNat_leBytes_of_lt _ _ (by simpa using hoff32), l0]
        rcases C19_short_file img (by rw [hfo, himg]; simp [List.length_take]; omega) with h | ⟨r, hr, hrr⟩
        · exact Or.inl h
        · exact Or.inr ⟨r, hr, by rw [hrr]; exact isPrefix_nil recs⟩
    · simp only [hk1, if_false] at himg
      have hwr : writeAt [] 0 (encForm h0 vb) = encForm h0 vb := by unfold writeAt; simp
      rw [hwr] at himg
      have hgo : writerLog.go (encForm h0 vb).length chunks ++
          [((encForm h0 vb).length + chunks.flatten.length, eb), (0, encForm hf vb)] =
          writerLog.go (encForm h0 vb).length (chunks ++ [eb]) ++ [(0, encForm hf vb)] := by
        rw [go_append_single]; simp
      rw [hgo, image_seq] at himg
      have hbody : (chunks ++ [eb]).flatten = recs.flatten ++ eb := by simp [hch]
      rw [hbody] at himg
      by_cases hk2 : k - (encForm h0 vb).length < (recs.flatten ++ eb).length
      · simp only [hk2, if_true] at himg
        rw [himg]; exact shape2 _
      · simp only [hk2, if_false, image] at himg
        generalize hk3 : k - (encForm h0 vb).length - (recs.flatten ++ eb).length = k3 at himg
        by_cases hz : k3 = 0
        · simp only [hz, if_true] at himg
          rw [himg]; exact shape2 _
        · simp only [hz, if_false] at himg
          by_cases hlt : k3 < (encForm hf vb).length
          · simp only [hlt, if_true] at himg
            have hw3 : writeAt (encForm h0 vb ++ (recs.flatten ++ eb)) 0 ((encForm hf vb).take k3) =
                (encForm hf vb).take k3 ++ (encForm h0 vb).drop k3 ++ (recs.flatten ++ eb) := by
              unfold writeAt
              simp only [Nat.not_lt_zero, if_false, List.take_zero, List.nil_append, Nat.zero_add, List.length_take]
              rw [Nat.min_eq_left (by omega), List.drop_append_of_le_length (by omega), List.append_assoc]
            rw [himg, hw3]; exact shape3 k3 (by omega)
          · simp only [hlt, if_false] at himg
            rw [writeAt_zero _ _ _ l1] at himg
            have := shape3 (encForm hf vb).length (Nat.le_refl _)
            rw [List.take_length, List.drop_of_length_le (by omega)] at this
            simp only [List.append_nil] at this
            rw [himg]; exact this


/-- **C19, a writer session in which a write failed and the session was then closed.** After a write that
    stored only the first `m` bytes of the record area and raised, the clean-up (`close`, from the with-block)
    rewrites the header advertising `n` records - those of the chunks written completely, since `write_points`
    counts after the write (it used to count before it: defect D19, fixed); at most `recs.length` in any case -
    over a record area that holds `recs.flatten.take m`; no EVLR is written. Whatever number `k`
    of bytes of that write stream reached the destination, reading it fails or returns a prefix of `recs`. -/
theorem C19_writer_crash_torn (h0 : Hdr) (hw0 : h0.WF) (hc0 : h0.count = 0) (vb : Bytes)
    (byReturn doubles : List Nat) (evlrStart nEvlrs : Nat) (recs : List Rec) (n : Nat) (hn : n ≤ recs.length)
    (hw' : (C07.withStats h0 n byReturn doubles evlrStart nEvlrs).WF)
    (hoff32 : base h0.vMinor + h0.extraHeader.length + vb.length + h0.extraVlr.length < 2 ^ 32)
    (chunks : List Bytes) (m : Nat) (hch : chunks.flatten = recs.flatten.take m)
    (hpos : 0 < h0.recLen) (hrec : ∀ r ∈ recs, r.length = h0.recLen) (k : Nat) :
    let img := image [] (writerLog (encForm h0 vb) chunks []
      (encForm (C07.withStats h0 n byReturn doubles evlrStart nEvlrs) vb)) k
    (∃ e, readFile img = .error e) ∨ (∃ r, readFile img = .ok r ∧ IsPrefix r.records recs) := by
  intro img
  have himg : img = image [] (writerLog (encForm h0 vb) chunks []
      (encForm (C07.withStats h0 n byReturn doubles evlrStart nEvlrs) vb)) k := rfl
  clear_value img
  generalize hF : C07.withStats h0 n byReturn doubles evlrStart nEvlrs = hf at *
  have l0 := encForm_length h0 hw0 vb
  have l1 : (encForm hf vb).length = (encForm h0 vb).length := by
    rw [l0, ← hF]; exact encForm_length _ (hF ▸ hw') vb
  have hb := base_ge h0.vMinor hw0.minor
  -- the header-rewrite shape, for any j
  have shape3 : ∀ j, j ≤ (encForm hf vb).length →
      (∃ e, readFile ((encForm hf vb).take j ++ (encForm h0 vb).drop j ++ (recs.flatten.take m ++ [])) = .error e) ∨
      (∃ r, readFile ((encForm hf vb).take j ++ (encForm h0 vb).drop j ++ (recs.flatten.take m ++ [])) = .ok r ∧ IsPrefix r.records recs) := by
    intro j hj
    subst hF
    have := C19_rewrite_session_cut h0 hw0 vb n byReturn doubles evlrStart nEvlrs hw' hoff32 recs [] m j hj hpos hrec
      (by omega) hn
    simpa using this
  -- the shape before the rewrite: the initial header followed by anything
  have shape2 : ∀ t : Bytes,
      (∃ e, readFile (encForm h0 vb ++ t) = .error e) ∨
      (∃ r, readFile (encForm h0 vb ++ t) = .ok r ∧ IsPrefix r.records recs) := by
    intro t
    have := C19_rewrite_session h0 hw0 vb h0.count h0.byReturn h0.doubles h0.evlrStart h0.nEvlrs
      (by rw [withStats_self]; exact hw0) hoff32 [] t 0 (Nat.zero_le _) hpos (by intro r hr; cases hr) (Nat.le_refl _)
      (by rw [hc0]; exact Nat.zero_le _)
    simp only [List.take_zero, List.drop_zero, List.nil_append, List.flatten_nil] at this
    rcases this with h | ⟨r, hr, ⟨t', ht'⟩⟩
    · exact Or.inl h
    · have : r.records = [] := by
        cases hrr : r.records with
        | nil => rfl
        | cons x xs => rw [hrr] at ht'; cases ht'
      exact Or.inr ⟨r, hr, by rw [this]; exact isPrefix_nil recs⟩
  unfold writerLog at himg
  simp only [List.cons_append, image] at himg
  by_cases hk0 : k = 0
  · simp only [hk0, if_true] at himg
    rw [himg]; exact Or.inl (readFile_tiny [] (by decide))
  · simp only [hk0, if_false] at himg
    by_cases hk1 : k < (encForm h0 vb).length
    · simp only [hk1, if_true] at himg
      have hwr : writeAt [] 0 ((encForm h0 vb).take k) = (encForm h0 vb).take k := by
        unfold writeAt; simp
      rw [hwr] at himg
      by_cases h227 : k < 227
      · rw [himg]; exact Or.inl (readFile_tiny _ (by simp [List.length_take]; omega))
      · have hfo : fileOffset img = (encForm h0 vb).length := by
          rw [himg]
          unfold fileOffset
          have hs : (((encForm h0 vb).take k).drop 96).take 4 = slice 96 4 (encForm h0 vb) := by
            unfold slice
            rw [List.drop_take, List.take_take]
            congr 1; omega
          rw [hs, (encForm_slices h0 hw0 vb).2.1, leNat_leBytes_of_lt _ _ (by simpa using hoff32), l0]
        rcases C19_short_file img (by rw [hfo, himg]; simp [List.length_take]; omega) with h | ⟨r, hr, hrr⟩
        · exact Or.inl h
        · exact Or.inr ⟨r, hr, by rw [hrr]; exact isPrefix_nil recs⟩
    · simp only [hk1, if_false] at himg
      have hwr : writeAt [] 0 (encForm h0 vb) = encForm h0 vb := by unfold writeAt; simp
      rw [hwr] at himg
      have hgo : writerLog.go (encForm h0 vb).length chunks ++
          [((encForm h0 vb).length + chunks.flatten.length, []), (0, encForm hf vb)] =
          writerLog.go (encForm h0 vb).length (chunks ++ [[]]) ++ [(0, encForm hf vb)] := by
        rw [go_append_single]; simp
      rw [hgo, image_seq] at himg
      have hbody : (chunks ++ [[]]).flatten = recs.flatten.take m ++ [] := by simp [hch]
      rw [hbody] at himg
      by_cases hk2 : k - (encForm h0 vb).length < (recs.flatten.take m ++ []).length
      · simp only [hk2, if_true] at himg
        rw [himg]; exact shape2 _
      · simp only [hk2, if_false, image] at himg
        generalize hk3 : k - (encForm h0 vb).length - (recs.flatten.take m ++ []).length = k3 at himg
        by_cases hz : k3 = 0
        · simp only [hz, if_true] at himg
          rw [himg]; exact shape2 _
        · simp only [hz, if_false] at himg
          by_cases hlt : k3 < (encForm hf vb).length
          · simp only [hlt, if_true] at himg
            have hw3 : writeAt (encForm h0 vb ++ (recs.flatten.take m ++ [])) 0 ((encForm hf vb).take k3) =
                (encForm hf vb).take k3 ++ (encForm h0 vb).drop k3 ++ (recs.flatten.take m ++ []) := by
              unfold writeAt
              simp only [Nat.not_lt_zero, if_false, List.take_zero, List.nil_append, Nat.zero_add, List.length_take]
              rw [Nat.min_eq_left (by omega), List.drop_append_of_le_length (by omega), List.append_assoc]
            rw [himg, hw3]; exact shape3 k3 (by omega)
          · simp only [hlt, if_false] at himg
            rw [writeAt_zero _ _ _ l1] at himg
            have := shape3 (encForm hf vb).length (Nat.le_refl _)
            rw [List.take_length, List.drop_of_length_le (by omega)] at this
            rw [himg]; simpa using this


/-- **an intact header over a record area in any state** (every crash point of an append session
    before its header rewrite; every truncation after the header): the header advertises `h.count`
    points, the record area starts with at least that many stored records followed by anything —
    reading fails or returns a prefix of the stored records -/
theorem C19_intact_header (h : Hdr) (hw : h.WF) (vb : Bytes)
    (hoff32 : base h.vMinor + h.extraHeader.length + vb.length + h.extraVlr.length < 2 ^ 32)
    (recs : List Rec) (tail : Bytes) (hpos : 0 < h.recLen) (hrec : ∀ r ∈ recs, r.length = h.recLen)
    (hn : h.count ≤ recs.length) :
    (∃ e, readFile (encForm h vb ++ (recs.flatten ++ tail)) = .error e) ∨
    (∃ r, readFile (encForm h vb ++ (recs.flatten ++ tail)) = .ok r ∧ IsPrefix r.records recs) := by
  have := C19_rewrite_session h hw vb h.count h.byReturn h.doubles h.evlrStart h.nEvlrs
    (by rw [withStats_self]; exact hw) hoff32 recs tail 0 (Nat.zero_le _) hpos hrec (Nat.le_refl _) hn
  simpa using this


theorem ago_eq (pos : Nat) (cs : List Bytes) : appenderLog.go pos cs = writerLog.go pos cs := by
  induction cs generalizing pos with
  | nil => rfl
  | cons c cs ih => simp [appenderLog.go, writerLog.go, ih]

/-- the image of a store under sequential writes that start inside it (overwriting its tail `T`) -/
theorem image_over (P T : Bytes) (cs : List Bytes) (rest : List Write) (k : Nat) :
    image (P ++ T) (writerLog.go P.length cs ++ rest) k =
      if k < cs.flatten.length then P ++ cs.flatten.take k ++ T.drop k
      else image (P ++ cs.flatten ++ T.drop cs.flatten.length) rest (k - cs.flatten.length) := by
  induction cs generalizing P T k with
  | nil => simp [writerLog.go]
  | cons c cs ih =>
    simp only [writerLog.go, List.cons_append, image, List.flatten_cons, List.length_append]
    by_cases hk0 : k = 0
    · subst hk0
      simp only [if_true]
      split
      · simp
      · next hz =>
        rw [Nat.zero_sub, image_zero]
        have hlen : c.length + cs.flatten.length = 0 := by omega
        have hf : c ++ cs.flatten = [] := List.length_eq_zero_iff.mp (by simp only [List.length_append]; omega)
        rw [hf, hlen]; simp
    · simp only [hk0, if_false]
      by_cases hkc : k < c.length
      · have : k < c.length + cs.flatten.length := by omega
        simp only [hkc, this, if_true]
        rw [writeAt_append, List.take_append_of_le_length (by omega)]
        simp [List.length_take, Nat.min_eq_left (Nat.le_of_lt hkc)]
      · simp only [hkc, if_false]
        rw [writeAt_append]
        have hl : (P ++ c).length = P.length + c.length := by simp
        rw [← hl, ih (P ++ c) (T.drop c.length) (k - c.length)]
        have e1 : (c ++ cs.flatten).take k = c ++ cs.flatten.take (k - c.length) := by
          rw [List.take_append, List.take_of_length_le (by omega)]
        have e2 : (T.drop c.length).drop (k - c.length) = T.drop k := by
          rw [List.drop_drop]; congr 1; omega
        have e3 : (T.drop c.length).drop cs.flatten.length = T.drop (c.length + cs.flatten.length) := by
          rw [List.drop_drop]
        have e4 : k - c.length - cs.flatten.length = k - (c.length + cs.flatten.length) := by omega
        by_cases hk2 : k - c.length < cs.flatten.length
        · have : k < c.length + cs.flatten.length := by omega
          simp only [hk2, this, if_true, e1, e2, List.append_assoc]
        · have : ¬ k < c.length + cs.flatten.length := by omega
          simp only [hk2, this, if_false, e3, e4, List.append_assoc]


theorem isPrefix_append_right {α} {a b : List α} (c : List α) (h : IsPrefix a b) : IsPrefix a (b ++ c) := by
  obtain ⟨t, ht⟩ := h
  exact ⟨t ++ c, by rw [← List.append_assoc, ht]⟩

/-- the order in the code, translated from `LasWriter.write_points` and `LasAppender.append_points` (`Gen.Order`): both count
    the points (`header.grow`) after the destination has taken them. It is the premise under which the header written when a
    session is closed after a failed write advertises only completely written chunks (`newRecs` below does not include the
    records of the failed write; `n` in `C19_writer_crash_torn` counts the chunks written completely). -/
theorem C19_count_after_write :
    Gen.Order.writerCountsAfterWrite = true ∧ Gen.Order.appenderCountsAfterWrite = true := by decide

/-- **C19, every crash point of an append session, also one in which a write failed.** The file holds a
    header `h` advertising the records `oldRecs`, followed by anything (`T`: its EVLRs). The session writes
    the new chunks over what follows the old records - `newRecs` completely, then possibly `torn`, the bytes
    that a failing write still stored and that were never counted (`append_points` counts after the write) -
    then, when the caller's clean-up closes the session, the EVLR bytes, and rewrites the header in place
    with the statistics of `oldRecs ++ newRecs`. Whatever number `k` of bytes of that write stream reached
    the file (all of them: the session was closed after the failure), reading it fails or returns a prefix
    of `oldRecs ++ newRecs`. -/
theorem C19_appender_crash_torn (h : Hdr) (hw : h.WF) (vb : Bytes) (oldRecs newRecs : List Rec) (T : Bytes)
    (hcount : h.count = oldRecs.length)
    (byReturn doubles : List Nat) (evlrStart nEvlrs : Nat)
    (hw' : (C07.withStats h (oldRecs ++ newRecs).length byReturn doubles evlrStart nEvlrs).WF)
    (hoff32 : base h.vMinor + h.extraHeader.length + vb.length + h.extraVlr.length < 2 ^ 32)
    (chunks : List Bytes) (torn : Bytes) (hch : chunks.flatten = newRecs.flatten ++ torn) (eb0 : Bytes)
    (hpos : 0 < h.recLen) (hrec : ∀ r ∈ oldRecs ++ newRecs, r.length = h.recLen) (k : Nat) :
    let file := encForm h vb ++ oldRecs.flatten ++ T
    let img := image file (appenderLog (encForm h vb ++ oldRecs.flatten).length chunks eb0
      (encForm (C07.withStats h (oldRecs ++ newRecs).length byReturn doubles evlrStart nEvlrs) vb)) k
    (∃ e, readFile img = .error e) ∨ (∃ r, readFile img = .ok r ∧ IsPrefix r.records (oldRecs ++ newRecs)) := by
  intro file img
  generalize heb : torn ++ eb0 = eb
  have himg : img = image (encForm h vb ++ oldRecs.flatten ++ T) (appenderLog (encForm h vb ++ oldRecs.flatten).length chunks eb0
      (encForm (C07.withStats h (oldRecs ++ newRecs).length byReturn doubles evlrStart nEvlrs) vb)) k := rfl
  clear_value img file
  have l0 := encForm_length h hw vb
  have l1 : (encForm (C07.withStats h (oldRecs ++ newRecs).length byReturn doubles evlrStart nEvlrs) vb).length = (encForm h vb).length := by
    rw [l0]; exact encForm_length _ hw' vb
  have hrecOld : ∀ r ∈ oldRecs, r.length = h.recLen := fun r hr => hrec r (List.mem_append_left _ hr)
  -- header untouched, the old records followed by anything
  have shapeA : ∀ t : Bytes,
      (∃ e, readFile (encForm h vb ++ (oldRecs.flatten ++ t)) = .error e) ∨
      (∃ r, readFile (encForm h vb ++ (oldRecs.flatten ++ t)) = .ok r ∧ IsPrefix r.records (oldRecs ++ newRecs)) := by
    intro t
    rcases C19_intact_header h hw vb hoff32 oldRecs t hpos hrecOld (by omega) with hh | ⟨r, hr, hp⟩
    · exact Or.inl hh
    · exact Or.inr ⟨r, hr, isPrefix_append_right newRecs hp⟩
  -- the header rewrite over the complete record area
  have shapeB : ∀ j, j ≤ (encForm (C07.withStats h (oldRecs ++ newRecs).length byReturn doubles evlrStart nEvlrs) vb).length → ∀ t : Bytes,
      (∃ e, readFile ((encForm (C07.withStats h (oldRecs ++ newRecs).length byReturn doubles evlrStart nEvlrs) vb).take j ++
        (encForm h vb).drop j ++ ((oldRecs ++ newRecs).flatten ++ t)) = .error e) ∨
      (∃ r, readFile ((encForm (C07.withStats h (oldRecs ++ newRecs).length byReturn doubles evlrStart nEvlrs) vb).take j ++
        (encForm h vb).drop j ++ ((oldRecs ++ newRecs).flatten ++ t)) = .ok r ∧ IsPrefix r.records (oldRecs ++ newRecs)) := by
    intro j hj t
    exact C19_rewrite_session h hw vb _ byReturn doubles evlrStart nEvlrs hw' hoff32 (oldRecs ++ newRecs) t j hj hpos hrec
      (by rw [hcount]; simp) (Nat.le_refl _)
  generalize hF : encForm (C07.withStats h (oldRecs ++ newRecs).length byReturn doubles evlrStart nEvlrs) vb = encF at *
  unfold appenderLog at himg
  rw [ago_eq] at himg
  have hgo : writerLog.go (encForm h vb ++ oldRecs.flatten).length chunks ++
      [((encForm h vb ++ oldRecs.flatten).length + chunks.flatten.length, eb0), (0, encF)] =
      writerLog.go (encForm h vb ++ oldRecs.flatten).length (chunks ++ [eb0]) ++ [(0, encF)] := by
    rw [go_append_single]; simp
  rw [hgo, image_over] at himg
  have hbody : (chunks ++ [eb0]).flatten = newRecs.flatten ++ eb := by simp [hch, ← heb, List.append_assoc]
  rw [hbody] at himg
  by_cases hk2 : k < (newRecs.flatten ++ eb).length
  · simp only [hk2, if_true] at himg
    rw [himg, List.append_assoc, List.append_assoc]; exact shapeA _
  · simp only [hk2, if_false, image] at himg
    have hstore : encForm h vb ++ oldRecs.flatten ++ (newRecs.flatten ++ eb) ++ T.drop (newRecs.flatten ++ eb).length =
        encForm h vb ++ ((oldRecs ++ newRecs).flatten ++ (eb ++ T.drop (newRecs.flatten ++ eb).length)) := by
      simp [List.append_assoc]
    rw [hstore] at himg
    generalize hk3 : k - (newRecs.flatten ++ eb).length = k3 at himg
    by_cases hz : k3 = 0
    · simp only [hz, if_true] at himg
      have := shapeB 0 (Nat.zero_le _) (eb ++ T.drop (newRecs.flatten ++ eb).length)
      simp only [List.take_zero, List.drop_zero, List.nil_append] at this
      rw [himg]; exact this
    · simp only [hz, if_false] at himg
      by_cases hlt : k3 < encF.length
      · simp only [hlt, if_true] at himg
        have hw3 : ∀ body : Bytes, writeAt (encForm h vb ++ body) 0 (encF.take k3) =
            encF.take k3 ++ (encForm h vb).drop k3 ++ body := by
          intro body
          unfold writeAt
          simp only [Nat.not_lt_zero, if_false, List.take_zero, List.nil_append, Nat.zero_add, List.length_take]
          rw [Nat.min_eq_left (by omega), List.drop_append_of_le_length (by omega), List.append_assoc]
        rw [himg, hw3]; exact shapeB k3 (by omega) _
      · simp only [hlt, if_false] at himg
        rw [writeAt_zero _ _ _ l1] at himg
        have := shapeB encF.length (Nat.le_refl _) (eb ++ T.drop (newRecs.flatten ++ eb).length)
        rw [List.take_length, List.drop_of_length_le (by omega)] at this
        simp only [List.append_nil] at this
        rw [himg]; exact this


/-- **C19, every crash point of an append session** (no failing write): the case `torn = []` -/
theorem C19_appender_crash (h : Hdr) (hw : h.WF) (vb : Bytes) (oldRecs newRecs : List Rec) (T : Bytes)
    (hcount : h.count = oldRecs.length)
    (byReturn doubles : List Nat) (evlrStart nEvlrs : Nat)
    (hw' : (C07.withStats h (oldRecs ++ newRecs).length byReturn doubles evlrStart nEvlrs).WF)
    (hoff32 : base h.vMinor + h.extraHeader.length + vb.length + h.extraVlr.length < 2 ^ 32)
    (chunks : List Bytes) (hch : chunks.flatten = newRecs.flatten) (eb : Bytes)
    (hpos : 0 < h.recLen) (hrec : ∀ r ∈ oldRecs ++ newRecs, r.length = h.recLen) (k : Nat) :
    let file := encForm h vb ++ oldRecs.flatten ++ T
    let img := image file (appenderLog (encForm h vb ++ oldRecs.flatten).length chunks eb
      (encForm (C07.withStats h (oldRecs ++ newRecs).length byReturn doubles evlrStart nEvlrs) vb)) k
    (∃ e, readFile img = .error e) ∨ (∃ r, readFile img = .ok r ∧ IsPrefix r.records (oldRecs ++ newRecs)) :=
  C19_appender_crash_torn h hw vb oldRecs newRecs T hcount byReturn doubles evlrStart nEvlrs hw' hoff32 chunks [] (by simpa using hch) eb
    hpos hrec k

/-- **C19, truncated files.** A complete file (header advertising at most the records stored, the
    records, anything after them) cut at any length `L`: reading fails or returns a prefix of the
    stored records. -/
theorem C19_truncated (h : Hdr) (hw : h.WF) (vb : Bytes)
    (hoff32 : base h.vMinor + h.extraHeader.length + vb.length + h.extraVlr.length < 2 ^ 32)
    (recs : List Rec) (tail : Bytes) (hpos : 0 < h.recLen) (hrec : ∀ r ∈ recs, r.length = h.recLen)
    (hn : h.count ≤ recs.length) (L : Nat) :
    (∃ e, readFile ((encForm h vb ++ (recs.flatten ++ tail)).take L) = .error e) ∨
    (∃ r, readFile ((encForm h vb ++ (recs.flatten ++ tail)).take L) = .ok r ∧ IsPrefix r.records recs) := by
  have l0 := encForm_length h hw vb
  have hb := base_ge h.vMinor hw.minor
  obtain ⟨a1, a2, a3, a4, a5⟩ := encForm_slices h hw vb
  by_cases h227 : L < 227
  · exact Or.inl (readFile_tiny _ (by simp [List.length_take]; omega))
  · by_cases hL : L ≤ (encForm h vb).length
    · -- cut inside the header / VLR block: no record at all
      have himg : (encForm h vb ++ (recs.flatten ++ tail)).take L = (encForm h vb).take L :=
        List.take_append_of_le_length hL
      rw [himg]
      have hfo : fileOffset ((encForm h vb).take L) = (encForm h vb).length := by
        unfold fileOffset
        have hs : (((encForm h vb).take L).drop 96).take 4 = slice 96 4 (encForm h vb) := by
          unfold slice
          rw [List.drop_take, List.take_take]
          congr 1; omega
        rw [hs, a2, leNat_leBytes_of_lt _ _ (by simpa using hoff32), l0]
      rcases C19_short_file ((encForm h vb).take L) (by rw [hfo]; simp [List.length_take]; omega) with hh | ⟨r, hr, hrr⟩
      · exact Or.inl hh
      · exact Or.inr ⟨r, hr, by rw [hrr]; exact isPrefix_nil recs⟩
    · -- cut inside the record area (or later): intact header over the bytes present
      have himg : (encForm h vb ++ (recs.flatten ++ tail)).take L =
          encForm h vb ++ (recs.flatten ++ tail).take (L - (encForm h vb).length) := by
        rw [List.take_append, List.take_of_length_le (by omega)]
      rw [himg]
      have hmin : leNat (slice 25 1 (encForm h vb)) = h.vMinor := by
        rw [a1, leNat_leBytes_of_lt]; have := hw.minor.2; omega
      have := C19_header_rewrite (encForm h vb) (encForm h vb) ((recs.flatten ++ tail).take (L - (encForm h vb).length)) recs tail 0
        (base h.vMinor + h.extraHeader.length + vb.length + h.extraVlr.length) h.recLen h.count h.count
        rfl l0 (by omega) (Nat.zero_le _) (L - (encForm h vb).length) rfl hpos hrec rfl rfl
        (by rw [a2, leNat_leBytes_of_lt _ _ (by simpa using hoff32)]) rfl
        (by rw [a3, leNat_leBytes_of_lt _ _ (by have := hw.recLen; simpa using this)]) (Nat.le_refl _) hn
        (by
          rw [hmin]
          have hc := hw.count
          simp only [maxPointCount] at hc
          by_cases h4 : h.vMinor ≥ 4
          · simp only [h4, if_true]
            have h3 : ¬ h.vMinor ≤ 3 := by omega
            simp only [h3, if_false] at hc
            exact ⟨a5 h4, a5 h4, by omega⟩
          · simp only [h4, if_false]
            simp only [h4, if_false] at a4
            have h3 : h.vMinor ≤ 3 := by omega
            simp only [h3, if_true] at hc
            exact ⟨a4, a4, by omega⟩)
      simpa using this


/-! ### non-vacuity -/

/-- a concrete legal header: LAS 1.2, point format 0, 20-byte records, no VLR -/
def exHdr (count : Nat) : Hdr :=
  { fileSourceId := 7, globalEncoding := 0, guid := List.replicate 16 0, vMajor := 1, vMinor := 2,
    systemId := [], software := [], doy := 60, year := 2024, fmtByte := 0, recLen := 20, count := count,
    byReturn := List.replicate 15 0, doubles := List.replicate 12 0, waveformStart := 0, evlrStart := 0, nEvlrs := 0,
    extraHeader := [], vlrs := [], extraVlr := [] }

theorem exHdr_wf (count : Nat) (h : count ≤ 4294967295) : (exHdr count).WF :=
  { fsid := by simp [exHdr]
    ge := by simp [exHdr]
    guid := by simp [exHdr]
    major := by simp [exHdr]
    minor := by simp [exHdr]
    sys := ⟨fun b hb => by simp [exHdr] at hb, by simp [exHdr]⟩
    soft := ⟨fun b hb => by simp [exHdr] at hb, by simp [exHdr]⟩
    doy := by simp [exHdr]
    year := by simp [exHdr]
    fmt := by simp [exHdr]
    recLen := by simp [exHdr]
    count := by simp only [exHdr, maxPointCount]; simp; omega
    ret := ⟨by simp [exHdr], by intro r hr; simp only [exHdr, List.mem_replicate] at hr; rw [hr.2]; simp [exHdr]⟩
    doubles := ⟨by simp [exHdr], by intro d hd; simp only [exHdr, List.mem_replicate] at hd; rw [hd.2]; decide⟩
    wave := by simp [exHdr]
    evlr := by simp [exHdr]
    vlrs := by intro v hv; simp [exHdr] at hv
    nvlrs := by simp [exHdr] }

/-- non-vacuity of `C19_writer_crash`: a writer session storing three 20-byte records under the header above meets
    every hypothesis, so every crash image of that session reads as a prefix of those records or fails -/
example (k : Nat) :
    let recs : List Rec := List.replicate 3 (List.replicate 20 0)
    let img := image [] (writerLog (encForm (exHdr 0) []) [recs.flatten] []
      (encForm (C07.withStats (exHdr 0) recs.length (List.replicate 15 0) (List.replicate 12 0) 0 0) [])) k
    (∃ e, readFile img = .error e) ∨ (∃ r, readFile img = .ok r ∧ IsPrefix r.records recs) := by
  intro recs
  have hw' : (C07.withStats (exHdr 0) recs.length (List.replicate 15 0) (List.replicate 12 0) 0 0).WF := by
    have : C07.withStats (exHdr 0) recs.length (List.replicate 15 0) (List.replicate 12 0) 0 0 = exHdr 3 := rfl
    rw [this]; exact exHdr_wf 3 (by decide)
  exact C19_writer_crash (exHdr 0) (exHdr_wf 0 (by decide)) rfl [] (List.replicate 15 0) (List.replicate 12 0) 0 0 recs hw'
    (by decide) [recs.flatten] (by simp) [] (by decide)
    (by intro r hr; simp only [recs, List.mem_replicate] at hr; rw [hr.2]; rfl) k


/-- non-vacuity of `C19_appender_crash_torn`: a file with two records, an append session that stored one more record
    completely and then 7 bytes of a write that failed, closed by its with-block: every hypothesis is met -/
example (k : Nat) :
    let old : List Rec := List.replicate 2 (List.replicate 20 1)
    let new : List Rec := [List.replicate 20 2]
    let torn : Bytes := List.replicate 7 3
    let img := image (encForm (exHdr 2) [] ++ old.flatten ++ []) (appenderLog (encForm (exHdr 2) [] ++ old.flatten).length
      [new.flatten ++ torn] []
      (encForm (C07.withStats (exHdr 2) (old ++ new).length (List.replicate 15 0) (List.replicate 12 0) 0 0) [])) k
    (∃ e, readFile img = .error e) ∨ (∃ r, readFile img = .ok r ∧ IsPrefix r.records (old ++ new)) := by
  intro old new torn
  have hw' : (C07.withStats (exHdr 2) (old ++ new).length (List.replicate 15 0) (List.replicate 12 0) 0 0).WF := by
    have : C07.withStats (exHdr 2) (old ++ new).length (List.replicate 15 0) (List.replicate 12 0) 0 0 = exHdr 3 := rfl
    rw [this]; exact exHdr_wf 3 (by decide)
  exact C19_appender_crash_torn (exHdr 2) (exHdr_wf 2 (by decide)) [] old new [] rfl (List.replicate 15 0) (List.replicate 12 0) 0 0 hw'
    (by decide) [new.flatten ++ torn] torn (by simp) [] (by decide)
    (by intro r hr; simp only [old, new, List.mem_append, List.mem_replicate, List.mem_singleton] at hr
        rcases hr with hr | hr
        · rw [hr.2]; rfl
        · rw [hr]; rfl) k

/-- non-vacuity of `C19_writer_crash_torn`: a writer session that stored two records completely and 7 bytes of a third one
    whose write failed, then was closed with a header advertising the two: every hypothesis is met -/
example (k : Nat) :
    let recs : List Rec := List.replicate 3 (List.replicate 20 4)
    let img := image [] (writerLog (encForm (exHdr 0) []) [(recs.take 2).flatten, (List.replicate 7 4)] []
      (encForm (C07.withStats (exHdr 0) 2 (List.replicate 15 0) (List.replicate 12 0) 0 0) [])) k
    (∃ e, readFile img = .error e) ∨ (∃ r, readFile img = .ok r ∧ IsPrefix r.records recs) := by
  intro recs
  have hw' : (C07.withStats (exHdr 0) 2 (List.replicate 15 0) (List.replicate 12 0) 0 0).WF := by
    have : C07.withStats (exHdr 0) 2 (List.replicate 15 0) (List.replicate 12 0) 0 0 = exHdr 2 := rfl
    rw [this]; exact exHdr_wf 2 (by decide)
  exact C19_writer_crash_torn (exHdr 0) (exHdr_wf 0 (by decide)) rfl [] (List.replicate 15 0) (List.replicate 12 0) 0 0 recs 2 (by decide) hw'
    (by decide) [(recs.take 2).flatten, (List.replicate 7 4)] 47 (by decide) (by decide)
    (by intro r hr; simp only [recs, List.mem_replicate] at hr; rw [hr.2]; rfl) k

end LasModel.Props.C19
