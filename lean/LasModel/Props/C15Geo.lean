/-
C15 — geometry, integer-grid box filter, level ranges and resolution in exact rationals
(Mathlib is imported for `linarith` / `nlinarith` / `field_simp` / `positivity` only).
-/
import Mathlib.Tactic.Linarith
import Mathlib.Tactic.FieldSimp
import Mathlib.Tactic.Ring
import Mathlib.Algebra.Order.Field.Rat
import LasModel.Model.Copc
import LasModel.Props.C11
import LasModel.Props.C15

namespace LasModel.Props.C15
open LasModel.Copc Gen.Copc LasModel.Scaling
theorem child_coord (x b : Nat) (h : b ≤ 1) : (x <<< 1) ||| b = 2 * x + b := by
  have := Nat.shiftLeft_add_eq_or_of_lt (i := 1) (b := b) (by omega) x
  rw [← this, Nat.shiftLeft_eq]; omega

/-- one axis: the child's interval lies inside the parent's -/
theorem axis_child (m S : Rat) (hS : 0 ≤ S) (l x b : Nat) (hb : b ≤ 1) :
    axisLo m S l x ≤ axisLo m S (l + 1) (2 * x + b) ∧ axisHi m S (l + 1) (2 * x + b) ≤ axisHi m S l x := by
  unfold axisLo axisHi
  have hp : (0 : Rat) < 2 ^ l := by positivity
  have e : S / (2 : Rat) ^ (l + 1) = S / 2 ^ l / 2 := by rw [pow_succ]; field_simp
  have hq : 0 ≤ S / (2 : Rat) ^ l := div_nonneg hS (le_of_lt hp)
  rw [e]
  have hb0 : (0 : Rat) ≤ (b : Rat) := by exact_mod_cast Nat.zero_le b
  have hb1 : (b : Rat) ≤ 1 := by exact_mod_cast hb
  push_cast
  constructor
  · nlinarith
  · nlinarith

theorem ovAxis_child (m S : Rat) (hS : 0 ≤ S) (l x b : Nat) (hb : b ≤ 1) (b0 b1 : Option Rat)
    (h : ovAxis m S (l + 1) (2 * x + b) b0 b1 = true) : ovAxis m S l x b0 b1 = true := by
  obtain ⟨h1, h2⟩ := axis_child m S hS l x b hb
  unfold ovAxis at *
  rw [Bool.and_eq_true] at *
  constructor
  · cases b1 with
    | none => rfl
    | some v => simp only [leUp, decide_eq_true_eq] at *; linarith [h.1]
  · cases b0 with
    | none => rfl
    | some v => simp only [geLo, decide_eq_true_eq] at *; linarith [h.2]

/-- **a child's cube lies in its parent's**: overlap of the child implies overlap of the parent -/
theorem C15_child_inside (g : Geo) (hS : 0 ≤ g.side) (b : Box) (k : Key) (d : Nat)
    (h : ovKey g b (child k d) = true) : ovKey g b k = true := by
  unfold ovKey at *
  simp only [child] at h
  rw [child_coord _ _ Nat.and_le_right, child_coord _ _ Nat.and_le_right, child_coord _ _ Nat.and_le_right] at h
  simp only [Bool.and_eq_true] at *
  exact ⟨⟨ovAxis_child _ _ hS _ _ _ Nat.and_le_right _ _ h.1.1, ovAxis_child _ _ hS _ _ _ Nat.and_le_right _ _ h.1.2⟩,
    ovAxis_child _ _ hS _ _ _ Nat.and_le_right _ _ h.2⟩

theorem mono_noRange (g : Geo) (hS : 0 ≤ g.side) (b : Box) : Mono (noRangeQuery (ovKey g b)) :=
  ⟨fun k d _ h => C15_child_inside g hS b k d h, fun _ h => by cases h⟩

theorem mono_range (g : Geo) (hS : 0 ≤ g.side) (b : Box) (start stop step : Int) :
    Mono (rangeQuery (ovKey g b) start stop step) :=
  ⟨fun k d _ h => C15_child_inside g hS b k d h, fun l h => by
    simp only [rangeQuery, decide_eq_true_eq] at *; push_cast; omega⟩

/-- a level of the range is never cut, whatever the sign of the step -/
theorem C15_range_cut (start stop step : Int) (l : Nat) (h : inPyRange start stop step l = true) :
    decide (max start (stop - 1) < (l : Int)) = false := by
  unfold inPyRange at h
  simp only [decide_eq_false_iff_not]
  split at h
  · simp only [Bool.and_eq_true, decide_eq_true_eq] at h; omega
  · split at h
    · simp only [Bool.and_eq_true, decide_eq_true_eq] at h; omega
    · cases h

theorem grid_le_of_le (s o v : Rat) (hs : 0 < s) (X : Int) (hX : -2147483648 ≤ X) (h : v ≤ apply s o X) :
    gridOf s o v ≤ X := by
  have hq : (v - o) / s ≤ (X : Rat) := by
    rw [div_le_iff₀ hs]; unfold apply at h; linarith
  have := (C11.round_bounds ((v - o) / s) ((v - o) / s).floor X (Rat.floor_le _) hq).2
  unfold gridOf clampI32; omega

theorem le_grid_of_le (s o v : Rat) (hs : 0 < s) (X : Int) (hX : X ≤ 2147483647) (h : apply s o X ≤ v) :
    X ≤ gridOf s o v := by
  have hq : (X : Rat) ≤ (v - o) / s := by
    rw [le_div_iff₀ hs]; unfold apply at h; linarith
  have hc : ((v - o) / s) ≤ ((((v - o) / s).floor + 1 : Int) : Rat) := by
    have := Rat.lt_floor_add_one ((v - o) / s); push_cast at this ⊢; linarith
  have := (C11.round_bounds ((v - o) / s) X (((v - o) / s).floor + 1) hq hc).1
  unfold gridOf clampI32; omega

/-- **a stored point inside the box is kept**, however large the box (faces beyond the int32 grid
    saturate, infinite faces too) -/
theorem C15_inside_kept (s o : Rat) (hs : 0 < s) (b0 b1 : Option Rat) (X : Int)
    (hX : -2147483648 ≤ X ∧ X ≤ 2147483647)
    (h0 : ∀ v, b0 = some v → v ≤ apply s o X) (h1 : ∀ v, b1 = some v → apply s o X ≤ v) :
    keepAxis s o b0 b1 X = true := by
  unfold keepAxis
  rw [Bool.and_eq_true, decide_eq_true_eq, decide_eq_true_eq]
  constructor
  · cases b0 with
    | none => exact hX.1
    | some v => exact grid_le_of_le s o v hs X hX.1 (h0 v rfl)
  · cases b1 with
    | none => exact hX.2
    | some v => exact le_grid_of_le s o v hs X hX.2 (h1 v rfl)

/-- **a kept point is within half a coordinate step of the box** (for coordinates that are not the
    extreme int32 values, where the saturated faces sit) -/
theorem C15_kept_near (s o : Rat) (hs : 0 < s) (b0 b1 : Option Rat) (X : Int)
    (hX : -2147483648 < X ∧ X < 2147483647) (h : keepAxis s o b0 b1 X = true) :
    (∀ v, b0 = some v → v - s / 2 ≤ apply s o X) ∧ (∀ v, b1 = some v → apply s o X ≤ v + s / 2) := by
  unfold keepAxis at h
  rw [Bool.and_eq_true, decide_eq_true_eq, decide_eq_true_eq] at h
  constructor
  · intro v hv
    subst hv
    have h1 : roundHalfEven ((v - o) / s) ≤ X := by
      have := h.1; simp only [gridLo, gridOf, clampI32] at this; omega
    have h2 := abs_le.mp (C11.round_err ((v - o) / s))
    have h3 : ((roundHalfEven ((v - o) / s) : Int) : Rat) ≤ (X : Rat) := by exact_mod_cast h1
    have h4 : (v - o) / s ≤ (X : Rat) + 1 / 2 := by linarith [h2.2]
    rw [div_le_iff₀ hs] at h4
    unfold apply; linarith
  · intro v hv
    subst hv
    have h1 : X ≤ roundHalfEven ((v - o) / s) := by
      have := h.2; simp only [gridHi, gridOf, clampI32] at this; omega
    have h2 := abs_le.mp (C11.round_err ((v - o) / s))
    have h3 : (X : Rat) ≤ ((roundHalfEven ((v - o) / s) : Int) : Rat) := by exact_mod_cast h1
    have h4 : (X : Rat) - 1 / 2 ≤ (v - o) / s := by linarith [h2.1]
    rw [le_div_iff₀ hs] at h4
    unfold apply; linarith

/-- **2-D boxes do not constrain z**: the z faces are the header's extrema, so every stored point
    whose z lies between them is kept on z -/
theorem C15_2d (s o : Rat) (hs : 0 < s) (Zmin Zmax Z : Int) (hz : Zmin ≤ Z ∧ Z ≤ Zmax)
    (hZ : -2147483648 ≤ Z ∧ Z ≤ 2147483647) :
    keepAxis s o (some (apply s o Zmin)) (some (apply s o Zmax)) Z = true := by
  apply C15_inside_kept s o hs _ _ Z hZ
  · intro v hv; cases hv
    unfold apply
    have : (Zmin : Rat) ≤ (Z : Rat) := by exact_mod_cast hz.1
    nlinarith
  · intro v hv; cases hv
    unfold apply
    have : (Z : Rat) ≤ (Zmax : Rat) := by exact_mod_cast hz.2
    nlinarith

theorem ceilLog2_spec (q : Rat) (fuel l : Nat) (hprev : ∀ l' < l, (2 : Rat) ^ l' < q) (hf : q ≤ (2 : Rat) ^ (l + fuel)) :
    q ≤ (2 : Rat) ^ (ceilLog2From q fuel l) ∧ ∀ l' < ceilLog2From q fuel l, (2 : Rat) ^ l' < q := by
  induction fuel generalizing l with
  | zero => exact ⟨by simpa [ceilLog2From] using hf, by simpa [ceilLog2From] using hprev⟩
  | succ f ih =>
    simp only [ceilLog2From]
    split
    · next h => exact ⟨h, hprev⟩
    · next h =>
      apply ih (l + 1)
      · intro l' hl'
        by_cases e : l' = l
        · subst e; exact lt_of_not_ge h
        · exact hprev l' (by omega)
      · have : l + 1 + f = l + (f + 1) := by omega
        rw [this]; exact hf

/-- **resolution**: the levels selected are `0..L`, where `L` is the first level whose point spacing
    `spacing / 2^L` is at most the resolution -/
theorem C15_resolution (spacing res : Rat) (hr : 0 < res) (fuel : Nat) (hf : spacing / res ≤ (2 : Rat) ^ fuel) :
    let L := levelMax spacing res fuel - 1
    (∀ l : Nat, inPyRange 0 (levelMax spacing res fuel) 1 l = true ↔ l ≤ L) ∧
    spacing / (2 : Rat) ^ L ≤ res ∧ ∀ l < L, res < spacing / (2 : Rat) ^ l := by
  have hspec := ceilLog2_spec (spacing / res) fuel 0 (by intro l' h; cases h) (by simpa using hf)
  have hL : levelMax spacing res fuel - 1 = ceilLog2From (spacing / res) fuel 0 := by unfold levelMax; omega
  simp only
  rw [hL]
  refine ⟨?_, ?_, ?_⟩
  · intro l
    have : levelMax spacing res fuel = ceilLog2From (spacing / res) fuel 0 + 1 := by unfold levelMax; omega
    rw [this]
    unfold inPyRange
    simp only [if_true, Int.zero_lt_one, Bool.and_eq_true, decide_eq_true_eq]
    constructor
    · intro h; omega
    · intro h; refine ⟨⟨by omega, by omega⟩, ?_⟩; simp
  · have hp : (0 : Rat) < 2 ^ (ceilLog2From (spacing / res) fuel 0) := by positivity
    rw [div_le_iff₀ hp]
    have := hspec.1
    rw [div_le_iff₀ hr] at this
    linarith
  · intro l hl
    have hp : (0 : Rat) < 2 ^ l := by positivity
    rw [lt_div_iff₀ hp]
    have := hspec.2 l hl
    rw [lt_div_iff₀ hr] at this
    linarith


/-- non-vacuity: a cube of side 8 at the origin and a box that cuts it meet the hypotheses of `C15_child_inside`; a child
    that overlaps the box exists -/
example : let g : Geo := ⟨0, 0, 0, 8⟩
    let b : Box := ⟨some 1, some 3, some 1, some 3, none, none⟩
    (0 : Rat) ≤ g.side ∧ ovKey g b (child rootKey 0) = true := by
  refine ⟨by decide +kernel, by decide +kernel⟩

/-- non-vacuity of `C15_resolution`: spacing 8 and resolution 1 need levels 0..3 -/
example : (8 : Rat) / 1 ≤ (2 : Rat) ^ 80 ∧ levelMax 8 1 80 = 4 := by
  refine ⟨by decide +kernel, by decide +kernel⟩

/-- non-vacuity of the grid theorems: a point strictly inside a box on a 0.25 grid -/
example : keepAxis (1 / 4) 0 (some 1) (some 3) 6 = true := by decide +kernel

end LasModel.Props.C15
