/-
C09 — bit-packed sub-fields are exact and isolated.

Single-byte layer: for every mask in the generated table `Gen.composed` (every format,
every sub-field), every prior byte (256) and every value — the literal finite quantifier of
the property — by kernel evaluation (`decide +kernel`), plus general lemmas over `testBit`.
Array layer: frame and last-write-wins for scatter assignments, for all columns, index
lists and value lists, by induction.
-/
import LasModel.Model.SubField
import LasModel.Spec.Asprs

namespace LasModel.Props.C09
open LasModel.SubField LasModel.Bits

/-- all (format, packed byte, sub-field, mask) rows of the generated table -/
def rows : List (Nat × String × String × Nat) :=
  Gen.formatIds.flatMap fun f =>
    (Gen.composed f).flatMap fun (byteName, subs) => subs.map fun (n, m) => (f, byteName, n, m)

/-- "exactly those bits": the bits a named dimension occupies are those the ASPRS layout gives it (format by format,
    byte by byte, in order) - the table laspy's sub-field views are built from is the specification's -/
theorem C09_bits_of_the_dimension : ∀ f ∈ Gen.formatIds, Gen.composed f = Spec.bits f := by decide +kernel

/-- the masks used by the single-byte theorems are exactly those of the table -/
theorem C09_masks_cover : ∀ r ∈ rows, r.2.2.2 ∈ Gen.allMasks := by decide +kernel

/-- every format has packed fields, and every packed byte named in the table is a 1-byte
    unsigned field of that format's record layout -/
theorem C09_bytes_in_layout :
    ∀ f ∈ Gen.formatIds, ∀ c ∈ Gen.composed f,
      ∃ e ∈ Gen.recLayout f, e.1 = c.1 ∧ e.2.2.1 = 1 ∧ e.2.2.2 = 1 := by decide +kernel

/-- laspy's lsb table is the true position of the lowest set bit and each mask is a
    contiguous run of bits inside one byte -/
theorem C09_lsb_correct : ∀ m ∈ Gen.allMasks,
    m < 256 ∧ m ≠ 0 ∧ m.testBit (lsb m) = true ∧ (∀ i < lsb m, m.testBit i = false) ∧
    m = (maxOf m) <<< (lsb m) ∧ (maxOf m + 1) &&& (maxOf m) = 0 := by decide +kernel

/-- sibling sub-fields of one byte have pairwise disjoint masks, and together they cover
    the byte exactly (no bit belongs to two fields or to none) -/
theorem C09_disjoint : ∀ f ∈ Gen.formatIds, ∀ c ∈ Gen.composed f,
    (c.2.map (·.2)).Pairwise (fun a b => a &&& b = 0) ∧ (c.2.map (·.2)).foldl (· ||| ·) 0 = 255 := by
  decide +kernel

/-- read-after-write: the assigned value is read back, for every mask, prior byte, value -/
theorem C09_get_set : ∀ m ∈ Gen.allMasks, ∀ b < 256, ∀ v ≤ maxOf m,
    getBits m (setBits m b v) = v := by decide +kernel

/-- isolation: no bit outside the mask changes, and the result is still a byte -/
theorem C09_isolated : ∀ m ∈ Gen.allMasks, ∀ b < 256, ∀ v ≤ maxOf m,
    clear (setBits m b v) m = clear b m ∧ setBits m b v < 256 := by decide +kernel

/-- a field disjoint from the assigned one reads as before (general lemma) -/
theorem getBits_of_clear_eq (m m' x y : Nat) (hd : m &&& m' = 0) (h : clear x m = clear y m) :
    getBits m' x = getBits m' y := by
  unfold getBits
  congr 1
  apply Nat.eq_of_testBit_eq
  intro i
  have h1 : (clear x m).testBit i = (clear y m).testBit i := by rw [h]
  rw [testBit_clear, testBit_clear] at h1
  have h2 : (m &&& m').testBit i = false := by rw [hd]; simp
  rw [Nat.testBit_and] at h2
  rw [Nat.testBit_and, Nat.testBit_and]
  cases hm : m.testBit i <;> cases hm' : m'.testBit i <;> simp_all

/-- siblings untouched: for every format and packed byte, assigning one sub-field leaves
    every other sub-field of that byte reading as before -/
theorem C09_siblings (f : Nat) (hf : f ∈ Gen.formatIds) (c : String × List (String × Nat))
    (hc : c ∈ Gen.composed f) (s s' : String × Nat) (hs : s ∈ c.2) (hs' : s' ∈ c.2)
    (hne : s.2 &&& s'.2 = 0) (b : Nat) (hb : b < 256) (v : Nat) (hv : v ≤ maxOf s.2) :
    getBits s'.2 (setBits s.2 b v) = getBits s'.2 b := by
  have hm : s.2 ∈ Gen.allMasks := by
    have : (f, c.1, s.1, s.2) ∈ rows := by
      unfold rows
      simp only [List.mem_flatMap, List.mem_map]
      exact ⟨f, hf, c, hc, s, hs, rfl⟩
    exact C09_masks_cover _ this
  exact getBits_of_clear_eq _ _ _ _ hne (C09_isolated _ hm b hb v hv).1

/-- out-of-range values (too large or negative) are refused and nothing is modified:
    the model returns an error and no new column -/
theorem C09_range (m : Nat) (col idxs : List Nat) (vals : List Int)
    (h : ∃ v ∈ vals, v < 0 ∨ v > (maxOf m : Int)) :
    assignCol m col idxs vals = .error .overflow := by
  unfold assignCol
  have : vals.all (inRange m) = false := by
    rw [List.all_eq_false]
    obtain ⟨v, hv, hr⟩ := h
    refine ⟨v, hv, ?_⟩
    unfold inRange
    rcases hr with hr | hr <;> simp <;> omega
  simp [this]

/-! ### array layer -/

theorem scatter_length (col : List Nat) (is vs : List Nat) :
    (scatter col is vs).length = col.length := by
  induction is generalizing col vs with
  | nil => simp [scatter]
  | cons i is ih =>
    cases vs with
    | nil => simp [scatter]
    | cons v vs => simp [scatter, ih]

/-- frame: a position that is not addressed keeps its content -/
theorem scatter_frame (col : List Nat) (is vs : List Nat) (j : Nat) (hj : j ∉ is) :
    (scatter col is vs).getD j 0 = col.getD j 0 := by
  induction is generalizing col vs with
  | nil => simp [scatter]
  | cons i is ih =>
    cases vs with
    | nil => simp [scatter]
    | cons v vs =>
      simp only [scatter]
      have hji : j ≠ i := fun h => hj (by simp [h])
      have hjis : j ∉ is := fun h => hj (by simp [h])
      rw [ih _ _ hjis]
      simp [List.getD_eq_getElem?_getD, List.getElem?_set, Ne.symm hji]

/-- last write wins: the value at an addressed in-bounds position is the one paired with the
    last occurrence of that position in the index list -/
def lastVal (j : Nat) : List Nat → List Nat → Option Nat
  | i :: is, v :: vs =>
    match lastVal j is vs with
    | some w => some w
    | none => if i = j then some v else none
  | _, _ => none

theorem scatter_spec (col : List Nat) (is vs : List Nat) (j : Nat) (hj : j < col.length) :
    (scatter col is vs).getD j 0 = (lastVal j is vs).getD (col.getD j 0) := by
  induction is generalizing col vs with
  | nil => simp [scatter, lastVal]
  | cons i is ih =>
    cases vs with
    | nil => simp [scatter, lastVal]
    | cons v vs =>
      simp only [scatter, lastVal]
      rw [ih (col.set i v) vs (by simpa using hj)]
      cases h : lastVal j is vs with
      | some w => simp
      | none =>
        by_cases hij : i = j
        · subst hij; simp [List.getD_eq_getElem?_getD, List.getElem?_set, hj]
        · simp [hij, List.getD_eq_getElem?_getD, List.getElem?_set]

/-- frame for a sub-field assignment: positions not addressed are byte-identical -/
theorem C09_frame (m : Nat) (col idxs : List Nat) (vals : List Int) (col' : List Nat)
    (h : assignCol m col idxs vals = .ok col') (j : Nat) (hj : j ∉ idxs) :
    col'.getD j 0 = col.getD j 0 ∧ col'.length = col.length := by
  unfold assignCol at h
  split at h
  · injection h with h
    subst h
    simp only [scatter_length, and_true]
    rw [scatter_frame _ _ _ _ hj, scatter_frame _ _ _ _ hj]
  · cases h

/-- an addressed position (distinct indices) holds `setBits` of its old byte and the value
    assigned to it: with C09_get_set / C09_isolated, it reads back the value and changes
    nothing else -/
theorem C09_addressed (m : Nat) (col idxs : List Nat) (vals : List Int) (col' : List Nat)
    (h : assignCol m col idxs vals = .ok col') (hn : idxs.Nodup) (hl : vals.length = idxs.length)
    (hb : ∀ i ∈ idxs, i < col.length) (k : Nat) (hk : k < idxs.length) :
    col'.getD (idxs[k]) 0 = setBits m (col.getD (idxs[k]) 0) (vals[k]'(by omega)).toNat := by
  unfold assignCol at h
  split at h
  case isFalse => cases h
  case isTrue hr =>
  injection h with h
  subst h
  have hjl : idxs[k] < col.length := hb _ (List.getElem_mem hk)
  -- generalized statement about scatter over Nodup indices
  have key : ∀ (c : List Nat) (is ws : List Nat), is.Nodup → ∀ (hlen : ws.length = is.length),
      ∀ k (hk : k < is.length), is[k] < c.length →
      (scatter c is ws).getD (is[k]) 0 = ws[k]'(by omega) := by
    intro c is
    induction is generalizing c with
    | nil => intro ws _ _ k hk; simp at hk
    | cons i is ih =>
      intro ws hnd hlen k hk hlt
      cases ws with
      | nil => simp at hlen
      | cons w ws =>
        simp only [scatter]
        rw [List.nodup_cons] at hnd
        cases k with
        | zero =>
          simp only [List.getElem_cons_zero]
          rw [scatter_frame _ _ _ _ hnd.1]
          simp only [List.getElem_cons_zero] at hlt
          simp [List.getD_eq_getElem?_getD, List.getElem?_set, hlt]
        | succ k =>
          simp only [List.getElem_cons_succ]
          simp only [List.length_cons] at hlen hk
          exact ih (c.set i w) ws hnd.2 (by omega) k (by omega) (by simpa using hlt)
  rw [key _ idxs _ hn (by simp [hl]) k hk (by simpa [scatter_length] using hjl)]
  simp only [List.getElem_map, List.getElem_zip]
  rw [key _ idxs _ hn (by simp) k hk hjl]
  simp [setBits]


/-! ### histories of assignments -/

structure Op where
  mask : Nat
  idxs : List Nat
  vals : List Int

/-- a well-formed assignment on a column of `n` records: a table mask, distinct in-bounds
    positions, one value per position -/
def Op.WF (n : Nat) (o : Op) : Prop :=
  o.mask ∈ Gen.allMasks ∧ o.idxs.Nodup ∧ o.vals.length = o.idxs.length ∧ ∀ i ∈ o.idxs, i < n

/-- one assignment; a refused one (out-of-range value) leaves the column as it was -/
def step (col : List Nat) (o : Op) : List Nat :=
  match assignCol o.mask col o.idxs o.vals with
  | .ok c => c
  | .error _ => col

def run (col : List Nat) (ops : List Op) : List Nat := ops.foldl step col

/-- the value `o` gives to field `m'` of record `j`, if it addresses it and is accepted -/
def Op.assigns (o : Op) (m' j : Nat) : Option Nat :=
  if o.mask = m' ∧ o.vals.all (inRange o.mask) = true then
    if h : o.idxs.idxOf j < o.vals.length then some (o.vals[o.idxs.idxOf j]).toNat else none
  else none

def lastAssigned (m' j : Nat) : List Op → Option Nat
  | [] => none
  | o :: rest =>
    match lastAssigned m' j rest with
    | some v => some v
    | none => o.assigns m' j

def Bytes (col : List Nat) : Prop := ∀ j, col.getD j 0 < 256

theorem step_spec (col : List Nat) (o : Op) (hwf : o.WF col.length) (hb : Bytes col)
    (m' : Nat) (hm' : o.mask = m' ∨ o.mask &&& m' = 0) (j : Nat) (hj : j < col.length) :
    getBits m' ((step col o).getD j 0) = (o.assigns m' j).getD (getBits m' (col.getD j 0)) := by
  obtain ⟨hmask, hnd, hlen, hin⟩ := hwf
  have hm0 : o.mask ≠ 0 := (C09_lsb_correct _ hmask).2.1
  unfold step Op.assigns
  cases hr : o.vals.all (inRange o.mask) with
  | false =>
    have : assignCol o.mask col o.idxs o.vals = .error .overflow := by simp [assignCol, hr]
    simp [this]
  | true =>
    have hok : assignCol o.mask col o.idxs o.vals =
        .ok (scatter (scatter col o.idxs (o.idxs.map fun i => clear (col.getD i 0) o.mask)) o.idxs
          ((o.idxs.zip o.vals).map fun (i, v) =>
            (((scatter col o.idxs (o.idxs.map fun i => clear (col.getD i 0) o.mask)).getD i 0) |||
              (v.toNat <<< lsb o.mask)) % 256)) := by
      simp [assignCol, hr]
    rw [hok]
    simp only
    by_cases hjm : j ∈ o.idxs
    · -- addressed
      have hk : o.idxs.idxOf j < o.idxs.length := List.idxOf_lt_length_of_mem hjm
      have hjk : o.idxs[o.idxs.idxOf j] = j := List.getElem_idxOf hk
      have hadd := C09_addressed o.mask col o.idxs o.vals _ hok hnd hlen hin _ hk
      rw [hjk] at hadd
      rw [hadd]
      have hkv : o.idxs.idxOf j < o.vals.length := by omega
      have hvr : inRange o.mask (o.vals[o.idxs.idxOf j]) = true :=
        (List.all_eq_true.mp hr) _ (List.getElem_mem hkv)
      have hv0 : 0 ≤ o.vals[o.idxs.idxOf j] := by
        unfold inRange at hvr; simp at hvr; exact hvr.1
      have hvm : (o.vals[o.idxs.idxOf j]).toNat ≤ maxOf o.mask := by
        unfold inRange at hvr; simp at hvr; omega
      rcases hm' with heq | hdis
      · subst heq
        simp only [true_and, hkv, dite_true, Option.getD_some]
        exact C09_get_set _ hmask _ (hb j) _ hvm
      · have hne : ¬ o.mask = m' := by
          intro h; subst h; rw [Nat.and_self] at hdis; exact hm0 hdis
        simp only [hne, false_and, if_false, Option.getD_none]
        exact getBits_of_clear_eq _ _ _ _ hdis (C09_isolated _ hmask _ (hb j) _ hvm).1
    · -- not addressed
      have hfr := (C09_frame o.mask col o.idxs o.vals _ hok j hjm).1
      rw [hfr]
      have : ¬ o.idxs.idxOf j < o.vals.length := by
        rw [hlen, List.idxOf_eq_length hjm]; omega
      simp [this]

theorem step_length (col : List Nat) (o : Op) : (step col o).length = col.length := by
  unfold step
  cases h : assignCol o.mask col o.idxs o.vals with
  | error e => rfl
  | ok c =>
    unfold assignCol at h
    split at h
    · injection h with h; subst h; simp [scatter_length]
    · cases h

theorem step_bytes (col : List Nat) (o : Op) (hwf : o.WF col.length) (hb : Bytes col) :
    Bytes (step col o) := by
  intro j
  obtain ⟨hmask, hnd, hlen, hin⟩ := hwf
  unfold step
  cases h : assignCol o.mask col o.idxs o.vals with
  | error e => exact hb j
  | ok c =>
    simp only
    by_cases hjm : j ∈ o.idxs
    · have hk : o.idxs.idxOf j < o.idxs.length := List.idxOf_lt_length_of_mem hjm
      have hjk : o.idxs[o.idxs.idxOf j] = j := List.getElem_idxOf hk
      have hadd := C09_addressed o.mask col o.idxs o.vals _ h hnd hlen hin _ hk
      rw [hjk] at hadd
      rw [hadd]
      unfold setBits
      exact Nat.mod_lt _ (by decide)
    · rw [(C09_frame o.mask col o.idxs o.vals _ h j hjm).1]; exact hb j

/-- after any history of sub-field assignments (each one accepted or refused), every
    sub-field of every record holds the last value an accepted assignment gave it, or its
    original value — for the assigned field and for all its siblings in the same byte -/
theorem C09_history (ops : List Op) (col : List Nat) (hb : Bytes col)
    (hwf : ∀ o ∈ ops, o.WF col.length) (m' : Nat)
    (hm' : ∀ o ∈ ops, o.mask = m' ∨ o.mask &&& m' = 0) (j : Nat) (hj : j < col.length) :
    getBits m' ((run col ops).getD j 0) =
      (lastAssigned m' j ops).getD (getBits m' (col.getD j 0)) := by
  induction ops generalizing col with
  | nil => simp [run, lastAssigned]
  | cons o rest ih =>
    have hwo : o.WF col.length := hwf o (by simp)
    have hlen := step_length col o
    have := ih (step col o) (step_bytes col o hwo hb)
      (by intro o' ho'; rw [hlen]; exact hwf o' (by simp [ho']))
      (by intro o' ho'; exact hm' o' (by simp [ho'])) (by omega)
    simp only [run, List.foldl_cons] at this ⊢
    rw [this, lastAssigned]
    cases h : lastAssigned m' j rest with
    | some v => simp
    | none =>
      simp only [Option.getD_none]
      exact step_spec col o hwo hb m' (hm' o (by simp)) j hj

/-- non-vacuity -/
example : assignCol 56 [0x25, 0xFF, 0x00] [2, 0] [5, 7] = .ok [0x3D, 0xFF, 0x28] := by rfl
example : assignCol 31 [0x25] [0] [-1] = .error .overflow := by rfl
example : readCol 56 [0x3D, 0xFF, 0x28] = [7, 7, 5] := by decide

end LasModel.Props.C09
