/-
C14 at file level — what laspy's own code adds around a LAZ backend, proved for every backend
that honours the contract: the shape of a compressed session's output, and reading it back.
-/
import LasModel.Model.CompressIO
import LasModel.Lemmas.ReadBack
import LasModel.Lemmas.Append
import LasModel.Props.C14

namespace LasModel.Props.C14File
open LasModel.Bytes LasModel.Header LasModel.Vlr LasModel.FileIO LasModel.CompressIO

/-! ### the backend double honours the contract -/

theorem xorFrom_length (c i : Nat) (l : Bytes) : (xorFrom c i l).length = l.length := by
  induction l generalizing i with
  | nil => rfl
  | cons b bs ih => simp [xorFrom, ih]

theorem xorFrom_take (c i k : Nat) (l : Bytes) : (xorFrom c i l).take k = xorFrom c i (l.take k) := by
  induction l generalizing i k with
  | nil => simp [xorFrom]
  | cons b bs ih =>
    cases k with
    | zero => simp [xorFrom]
    | succ k => simp [xorFrom, ih]

theorem xorFrom_invol (c i : Nat) (l : Bytes) : xorFrom c i (xorFrom c i l) = l := by
  induction l generalizing i with
  | nil => rfl
  | cons b bs ih =>
    simp only [xorFrom, ih]
    rw [UInt8.xor_assoc, UInt8.xor_self, UInt8.xor_zero]

theorem take_flatten_uniform (recs : List Rec) (k n : Nat) (h : ∀ r ∈ recs, r.length = k) :
    (recs.take n).flatten = recs.flatten.take (n * k) := by
  induction recs generalizing n with
  | nil => simp
  | cons r rs ih =>
    cases n with
    | zero => simp
    | succ n =>
      have hr : r.length = k := h r (by simp)
      simp only [List.take_succ_cons, List.flatten_cons]
      rw [ih n (fun x hx => h x (by simp [hx]))]
      have e1 : r.take ((n + 1) * k) = r := List.take_of_length_le (by rw [hr, Nat.succ_mul]; omega)
      have e2 : (n + 1) * k - r.length = n * k := by rw [hr, Nat.succ_mul]; omega
      rw [List.take_append, e1, e2]

theorem stubItem_vlrData (cs fmt extra : Nat) (h : Gen.recLen fmt + extra < 2 ^ 16) :
    stubItem ((stubCodec cs).vlrData fmt extra) = Gen.recLen fmt + extra := by
  unfold stubItem stubCodec
  simp only
  have hA : (stubMagic ++ leBytes 1 fmt ++ leBytes 2 extra ++ leBytes 4 cs).length = 15 := by
    simp [stubMagic]
  rw [List.append_assoc _ (leBytes 2 _) [0], List.drop_left' hA,
    List.take_left' (leBytes_length 2 _)]
  exact leNat_leBytes_of_lt 2 _ (by simpa using h)

theorem stubChunkSize_vlrData (cs fmt extra : Nat) (h : cs < 2 ^ 32) :
    stubChunkSize ((stubCodec cs).vlrData fmt extra) = cs := by
  unfold stubChunkSize stubCodec
  simp only
  have hA : (stubMagic ++ leBytes 1 fmt ++ leBytes 2 extra).length = 11 := by
    simp [stubMagic]
  rw [List.append_assoc _ (leBytes 2 _) [0], List.append_assoc _ (leBytes 4 _) _, List.drop_left' hA,
    List.take_left' (leBytes_length 4 _)]
  exact leNat_leBytes_of_lt 4 _ (by simpa using h)

/-- **the contract is satisfiable**: the backend double satisfies it (record lengths that fit
    the header's 16-bit field, as every LAS record length does) -/
theorem stub_laws (cs : Nat) :
    ∀ (fmt extra start : Nat) (chunks : List (List Rec)) (rest : Bytes) (n : Nat),
    Gen.recLen fmt + extra < 2 ^ 16 →
    (∀ r ∈ chunks.flatten, r.length = Gen.recLen fmt + extra) →
    n ≤ chunks.flatten.length →
    (stubCodec cs).decompress ((stubCodec cs).vlrData fmt extra)
      ((stubCodec cs).compress ((stubCodec cs).vlrData fmt extra) start chunks ++ rest) n =
      (chunks.flatten.take n).flatten := by
  intro fmt extra start chunks rest n hit hlen hn
  have hI := stubItem_vlrData cs fmt extra hit
  generalize hp : (stubCodec cs).vlrData fmt extra = p at hI
  show xorFrom (stubChunkSize p * stubItem p) 0 (((leBytes 8 _ ++ xorFrom (stubChunkSize p * stubItem p) 0 chunks.flatten.flatten ++
      leBytes 4 0 ++ leBytes 4 _ ++ _ ++ rest).drop 8).take (n * stubItem p)) = _
  rw [hI]
  simp only [List.append_assoc]
  rw [List.drop_left' (leBytes_length 8 _)]
  have hfl := flatten_length_uniform chunks.flatten _ hlen
  have hle : n * (Gen.recLen fmt + extra) ≤ (xorFrom (stubChunkSize p * (Gen.recLen fmt + extra)) 0 chunks.flatten.flatten).length := by
    rw [xorFrom_length, hfl]; exact Nat.mul_le_mul_right _ hn
  rw [List.take_append_of_le_length hle, xorFrom_take, xorFrom_invol]
  exact (take_flatten_uniform chunks.flatten _ n hlen).symm

theorem stub_codecLaws (cs : Nat) : CodecLaws (stubCodec cs) := stub_laws cs

/-! ### the writer's header copy -/

theorem toCompressed_mod : ∀ f, f < 64 →
    Gen.Compression.uncompressed_id_to_compressed f % 64 = f ∧
    Gen.Compression.uncompressed_id_to_compressed f < 256 ∧
    Gen.Compression.is_point_format_compressed (Gen.Compression.uncompressed_id_to_compressed f) = true ∧
    Gen.Compression.compressed_id_to_uncompressed (Gen.Compression.uncompressed_id_to_compressed f) = f := by
  decide +kernel

theorem fmtOf_lt (h : Hdr) : fmtOf h < 64 := Nat.mod_lt _ (by decide)

theorem fmtOf_compHdr (cd : Codec) (h : Hdr) : fmtOf (compHdr cd h) = fmtOf h :=
  (toCompressed_mod (fmtOf h) (fmtOf_lt h)).1

theorem classify_lz : classify (ascii "laszip encoded") 22204 = some Known.lasZip := by decide +kernel

theorem isLasZip_lasZipVlr (d : Bytes) : isLasZip (lasZipVlr d) = true := by
  simp [isLasZip, lasZipVlr, classify_lz]

theorem factory_lasZipVlr (d : Bytes) : factory (lasZipVlr d) = lasZipVlr d := by
  simp [factory, lasZipVlr, classify_lz, norm]

theorem lasZipVlr_wf (d : Bytes) (hd : d.length ≤ 65535) : (lasZipVlr d).WF false := by
  have h1 : Strings.NulFree (ascii "laszip encoded") ∧ (ascii "laszip encoded").length ≤ USER_ID_LEN ∧
      Strings.NulFree (ascii "http://laszip.org") ∧ (ascii "http://laszip.org").length ≤ DESCRIPTION_LEN := by
    unfold Strings.NulFree; decide +kernel
  refine ⟨h1.1, h1.2.1, h1.2.2.1, h1.2.2.2, by simp [lasZipVlr], ?_⟩
  simp only [lasZipVlr, lenWidth]; simp; omega

theorem mem_popLasZip {l : List Vlr} {v : Vlr} (h : v ∈ popLasZip l) : v ∈ l := by
  induction l with
  | nil => simp [popLasZip] at h
  | cons a l ih =>
    simp only [popLasZip] at h
    split at h
    · exact List.mem_cons_of_mem _ h
    · rcases List.mem_cons.mp h with h | h
      · simp [h]
      · exact List.mem_cons_of_mem _ (ih h)

theorem length_popLasZip_le (l : List Vlr) : (popLasZip l).length ≤ l.length := by
  induction l with
  | nil => simp [popLasZip]
  | cons a l ih => simp only [popLasZip]; split <;> simp <;> omega

/-- no record of the LasZip class -/
def NoLasZip (l : List Vlr) : Prop := ∀ v ∈ l, isLasZip v = false

theorem popLasZip_none {l : List Vlr} (h : NoLasZip l) : popLasZip l = l := by
  induction l with
  | nil => rfl
  | cons a l ih =>
    have ha : isLasZip a = false := h a (by simp)
    simp only [popLasZip, ha, Bool.false_eq_true, if_false]
    rw [ih (fun v hv => h v (by simp [hv]))]

theorem popLasZip_append_lz {l : List Vlr} (h : NoLasZip l) (d : Bytes) : popLasZip (l ++ [lasZipVlr d]) = l := by
  induction l with
  | nil => simp [popLasZip, isLasZip_lasZipVlr]
  | cons a l ih =>
    have ha : isLasZip a = false := h a (by simp)
    simp only [List.cons_append, popLasZip, ha, Bool.false_eq_true, if_false]
    rw [ih (fun v hv => h v (by simp [hv]))]

theorem findLasZip_append_lz {l : List Vlr} (h : NoLasZip l) (d : Bytes) :
    findLasZip (l ++ [lasZipVlr d]) = some (lasZipVlr d) := by
  induction l with
  | nil => simp [findLasZip, isLasZip_lasZipVlr]
  | cons a l ih =>
    have ha : isLasZip a = false := h a (by simp)
    simp only [List.cons_append, findLasZip, ha, Bool.false_eq_true, if_false]
    exact ih (fun v hv => h v (by simp [hv]))

theorem compHdr_wf (cd : Codec) (h : Hdr) (hw : h.WF) (hd : (lzOf cd h).length ≤ 65535)
    (hn : h.vlrs.length + 1 < 2 ^ 32) : (compHdr cd h).WF :=
  { fsid := hw.fsid, ge := hw.ge, guid := hw.guid, major := hw.major, minor := hw.minor, sys := hw.sys,
    soft := hw.soft, doy := hw.doy, year := hw.year,
    fmt := (toCompressed_mod (fmtOf h) (fmtOf_lt h)).2.1,
    recLen := hw.recLen, count := hw.count, ret := hw.ret, doubles := hw.doubles, wave := hw.wave, evlr := hw.evlr,
    vlrs := by
      intro v hv
      rcases List.mem_append.mp hv with hv | hv
      · exact hw.vlrs v (mem_popLasZip hv)
      · have : v = lasZipVlr (lzOf cd h) := by simpa using hv
        subst this
        exact ⟨lasZipVlr_wf _ hd, by simpa [lasZipVlr] using hd, factory_lasZipVlr _⟩
    nvlrs := by
      have := length_popLasZip_le h.vlrs
      simp only [compHdr, List.length_append, List.length_cons, List.length_nil]
      omega }

/-! ### a compressed session -/

def nonEmpty (chunks : List (List Rec)) : List (List Rec) := chunks.filter fun c => !c.isEmpty

theorem nonEmpty_flatten (chunks : List (List Rec)) : (nonEmpty chunks).flatten = chunks.flatten := by
  induction chunks with
  | nil => rfl
  | cons c cs ih =>
    unfold nonEmpty at *
    by_cases he : c.isEmpty = true
    · simp [List.filter_cons, he, ih, List.isEmpty_iff.mp he]
    · simp [List.filter_cons, he, ih]

theorem cwRun_points {F} (cd : Codec) (o : FOps F) (h : Hdr) (s : CW F)
    (hf : fmtOf s.hdr = fmtOf h) (hr : s.hdr.recLen = h.recLen) (hm : s.hdr.vMinor = h.vMinor) (hnd : s.done = false)
    (chunks : List (List Rec))
    (hcap : s.stats.count + chunks.flatten.length ≤ maxPointCount h.vMinor) :
    cwRun cd o s (chunks.map fun c => WOp.points (mkChunk h c)) =
      .ok { s with stats := foldStats o (fmtOf h) s.stats chunks, chunks := s.chunks ++ nonEmpty chunks } := by
  induction chunks generalizing s with
  | nil => simp [cwRun, foldStats, nonEmpty]
  | cons c cs ih =>
    simp only [List.map_cons, cwRun, cwStep]
    by_cases he : c.isEmpty = true
    · have : cwPoints o s (mkChunk h c) = .ok s := by simp [cwPoints, mkChunk, he]
      rw [this]
      simp only
      have hc0 : c = [] := List.isEmpty_iff.mp he
      subst hc0
      rw [ih s hf hr hm hnd (by simpa using hcap)]
      simp [foldStats, nonEmpty]
    · have hlen : c.length ≤ maxPointCount h.vMinor - s.stats.count := by
        simp only [List.flatten_cons, List.length_append] at hcap; omega
      have : cwPoints o s (mkChunk h c) =
          .ok { s with stats := grow o (fmtOf h) s.stats c, chunks := s.chunks ++ [c] } := by
        unfold cwPoints mkChunk
        simp only [he, hnd, hf, hr, hm, Bool.false_eq_true, if_false, ne_eq, not_true_eq_false, or_self]
        have : ¬ (maxPointCount h.vMinor - s.stats.count < c.length) := by omega
        simp [this]
      rw [this]
      simp only
      rw [ih { s with stats := grow o (fmtOf h) s.stats c, chunks := s.chunks ++ [c] } hf hr hm hnd (by
        simp only [grow, List.flatten_cons, List.length_append] at hcap ⊢; omega)]
      have hne : ¬ c = [] := fun hc => he (by simp [hc])
      simp [foldStats, hne, nonEmpty, List.filter_cons, he, List.append_assoc]

/-- the writer's state just before `close` -/
def preClose {F} (cd : Codec) (o : FOps F) (h : Hdr) (vb : Bytes) (chunks : List (List Rec)) (tail : Bytes) (es ne : Nat) : CW F :=
  { hdr := compHdr cd h, stats := foldStats o (fmtOf h) (resetStats o) chunks, lz := lzOf cd h,
    head := encForm (initialHdr o (compHdr cd h)) vb, chunks := nonEmpty chunks, tail := tail,
    done := !tail.isEmpty, evlrStart := es, nEvlrs := ne, offset := (encForm (initialHdr o (compHdr cd h)) vb).length }

/-- hypotheses under which a compressed session succeeds -/
structure SessionOKC {F} (cd : Codec) (o : FOps F) (h : Hdr) (chunks : List (List Rec)) (ev : List Vlr) : Prop where
  wf : h.WF
  bits : BitsOK o
  compat : ∃ r, Compat.writerInit (h.vMinor, fmtOf h) = .ok r
  lz : (lzOf cd h).length ≤ 65535
  nvlrs : h.vlrs.length + 1 < 2 ^ 32
  hsize : base h.vMinor + h.extraHeader.length < 2 ^ 16
  offset : headerLenOf (compHdr cd h) < 2 ^ 32
  cap : chunks.flatten.length ≤ maxPointCount h.vMinor
  evWF : ∀ v ∈ ev, v.WF true
  evVersion : h.vMinor < 4 → ev = []
  evCount : ev.length < 2 ^ 32
  fileSize : headerLenOf (compHdr cd h) +
      (cd.compress (lzOf cd h) (headerLenOf (compHdr cd h)) (nonEmpty chunks)).length < 2 ^ 64

/-- the compressed stream of a session: the compressor starts right after the header and VLRs -/
def streamOf (cd : Codec) (h : Hdr) (chunks : List (List Rec)) : Bytes :=
  cd.compress (lzOf cd h) (headerLenOf (compHdr cd h)) (nonEmpty chunks)

def finalHdrC {F} (cd : Codec) (o : FOps F) (h : Hdr) (chunks : List (List Rec)) (ev : List Vlr) : Hdr :=
  withStats o (compHdr cd h) (finalStats o h chunks)
    (if ev.isEmpty then 0 else headerLenOf (compHdr cd h) + (streamOf cd h chunks).length)
    (if ev.isEmpty then 0 else ev.length)

/-- **structure of a compressed session's output**: the final header — the caller's fields, the
    compressed bit, the backend's LasZip record after the caller's other VLRs, the statistics of
    all the points, the EVLR pointer just past the compressed stream — then the compressed
    stream started at the point offset, then the EVLRs -/
theorem sessionC_form {F} (cd : Codec) (o : FOps F) (h : Hdr) (chunks : List (List Rec)) (ev : List Vlr)
    (ok : SessionOKC cd o h chunks ev) :
    ∃ vb eb, encodeVlrs false (compHdr cd h).vlrs = .ok vb ∧ encodeVlrs true ev = .ok eb ∧
      (encForm (finalHdrC cd o h chunks ev) vb).length = headerLenOf (compHdr cd h) ∧
      (∀ rest, decodeVlrs false (compHdr cd h).vlrs.length (vb ++ rest) = ((compHdr cd h).vlrs, rest)) ∧
      (∀ rest, decodeVlrs true ev.length (eb ++ rest) = (ev.map factory, rest)) ∧
      (finalHdrC cd o h chunks ev).WF ∧
      sessionC cd o h (sessionOps h chunks ev) =
        .ok (encForm (finalHdrC cd o h chunks ev) vb ++ streamOf cd h chunks ++ eb) := by
  have hwC := compHdr_wf cd h ok.wf ok.lz ok.nvlrs
  have hfC := fmtOf_compHdr cd h
  have hwI := initialHdr_wf o ok.bits (compHdr cd h) hwC
  obtain ⟨vb, hvb, hvl, hdec, hencI⟩ := encodeHdr_eq (initialHdr o (compHdr cd h)) hwI false 0
  have hvbI : encodeVlrs false (compHdr cd h).vlrs = .ok vb := by simpa [initialHdr] using hvb
  obtain ⟨eb, heb, hebl, hebdec⟩ := LasModel.Props.C08.C08_framing true ev []
    (fun v hv => ⟨ok.evWF v hv, Or.inl rfl⟩)
  have hebdec' : ∀ rest, decodeVlrs true ev.length (eb ++ rest) = (ev.map factory, rest) := by
    intro rest
    obtain ⟨eb', heb', _, hd'⟩ := LasModel.Props.C08.C08_framing true ev rest
      (fun v hv => ⟨ok.evWF v hv, Or.inl rfl⟩)
    rw [heb] at heb'; injection heb' with e; subst e; exact hd'
  simp only [Bool.false_and, Bool.false_eq_true, if_false] at hencI
  have hvl' : vb.length = ((compHdr cd h).vlrs.map fun v => headerLen false + v.payload.length).sum := by
    simpa [initialHdr] using hvl
  have hlenI := encForm_length (initialHdr o (compHdr cd h)) hwI vb
  have hHL : (encForm (initialHdr o (compHdr cd h)) vb).length = headerLenOf (compHdr cd h) := by
    rw [hlenI]; simp [initialHdr, headerLenOf, hvl']
  have hes : (if ev.isEmpty then 0 else headerLenOf (compHdr cd h) + (streamOf cd h chunks).length) < 2 ^ 64 := by
    split
    · decide
    · exact ok.fileSize
  have hne : (if ev.isEmpty then 0 else ev.length) < 2 ^ 32 := by
    split
    · decide
    · exact ok.evCount
  have hstat : finalStats o h chunks = foldStats o (fmtOf (compHdr cd h)) (resetStats o) chunks := by
    rw [hfC]; rfl
  have hwF : (finalHdrC cd o h chunks ev).WF := by
    unfold finalHdrC
    rw [hstat]
    exact withStats_wf o ok.bits (compHdr cd h) hwC chunks _ _ ok.cap hes hne
  have hlenF := encForm_length (finalHdrC cd o h chunks ev) hwF vb
  have hHLF : (encForm (finalHdrC cd o h chunks ev) vb).length = headerLenOf (compHdr cd h) := by
    rw [hlenF]; simp [finalHdrC, withStats, headerLenOf, hvl']
  refine ⟨vb, eb, hvbI, heb, hHLF, ?_, hebdec', hwF, ?_⟩
  · intro rest; simpa [initialHdr] using hdec rest
  obtain ⟨r, hr⟩ := ok.compat
  unfold sessionC cwInit
  rw [hr]
  simp only [hencI]
  unfold sessionOps
  have hrun := cwRun_points cd o h
    { hdr := compHdr cd h, stats := resetStats o, lz := lzOf cd h, head := encForm (initialHdr o (compHdr cd h)) vb,
      chunks := [], tail := [], done := false, evlrStart := 0, nEvlrs := 0,
      offset := (encForm (initialHdr o (compHdr cd h)) vb).length } hfC rfl rfl rfl chunks
    (by simpa [resetStats] using ok.cap)
  have cwRun_append : ∀ (s : CW F) (a b : List WOp) (s' : CW F),
      cwRun cd o s a = .ok s' → cwRun cd o s (a ++ b) = cwRun cd o s' b := by
    intro s a
    induction a generalizing s with
    | nil => intro b s' h; simp [cwRun] at h; subst h; rfl
    | cons x xs ih =>
      intro b s' h
      simp only [cwRun, List.cons_append] at h ⊢
      cases hx : cwStep cd o s x with
      | error e => simp [hx] at h
      | ok s1 => simp only [hx] at h ⊢; exact ih s1 b s' h
  rw [cwRun_append _ _ _ _ hrun]
  simp only [List.nil_append]
  -- closing: the header is rewritten over the first one, of the same length
  have hclose : ∀ es ne, finalHdrC cd o h chunks ev = withStats o (compHdr cd h) (foldStats o (fmtOf h) (resetStats o) chunks) es ne →
      ∀ tail, cwClose cd o (preClose cd o h vb chunks tail es ne) =
        .ok (encForm (finalHdrC cd o h chunks ev) vb ++ streamOf cd h chunks ++ tail) := by
    intro es ne hfin tail
    unfold cwClose preClose
    simp only
    rw [← hfin]
    obtain ⟨vb2, hvb2, _, _, henc2⟩ := encodeHdr_eq (finalHdrC cd o h chunks ev) hwF true (encForm (initialHdr o (compHdr cd h)) vb).length
    have : vb2 = vb := by
      have : encodeVlrs false (compHdr cd h).vlrs = .ok vb2 := by simpa [finalHdrC, withStats] using hvb2
      rw [hvbI] at this; injection this with e; exact e.symm
    subst this
    have hsame : (base (finalHdrC cd o h chunks ev).vMinor + (finalHdrC cd o h chunks ev).extraHeader.length + vb2.length +
        (finalHdrC cd o h chunks ev).extraVlr.length != (encForm (initialHdr o (compHdr cd h)) vb2).length) = false := by
      rw [← hlenF, hHLF, hHL]; simp
    simp only [hsame, Bool.and_false, Bool.false_eq_true, if_false] at henc2
    rw [henc2]
    simp only [body, streamOf, hHL]
    rw [List.append_assoc, overwrite_same _ _ _ (by rw [hHLF, hHL])]
    simp [List.append_assoc]
  by_cases h4 : h.vMinor ≥ 4
  · simp only [h4, if_true, cwRun, cwStep]
    unfold cwEvlrs
    have hlt : ¬ (compHdr cd h).vMinor < 4 := by show ¬ h.vMinor < 4; omega
    simp only [hlt, if_false]
    by_cases hev : ev.isEmpty = true
    · have hev0 : ev = [] := List.isEmpty_iff.mp hev
      subst hev0
      have hebn : eb = [] := by
        simp [encodeVlrs, pure, Except.pure] at heb; exact heb
      subst hebn
      simp only [List.isEmpty_nil, if_true]
      have := hclose 0 0 (by simp [finalHdrC, finalStats]) []
      simpa [preClose] using this
    · simp only [hev, Bool.false_eq_true, if_false, heb]
      have hnee : (!eb.isEmpty) = true := by
        cases hh : ev with
        | nil => simp [hh] at hev
        | cons a l =>
          subst hh
          have := hebl
          cases eb with
          | nil => simp [headerLen, lenWidth] at this; omega
          | cons _ _ => rfl
      have := hclose (headerLenOf (compHdr cd h) + (streamOf cd h chunks).length) ev.length
        (by simp [finalHdrC, finalStats, hev]) eb
      simpa [preClose, hnee, body, streamOf, hHL] using this
  · have hev0 : ev = [] := ok.evVersion (by omega)
    subst hev0
    have hebn : eb = [] := by
      simp [encodeVlrs, pure, Except.pure] at heb; exact heb
    subst hebn
    simp only [h4, if_false, cwRun]
    have := hclose 0 0 (by simp [finalHdrC, finalStats]) []
    simpa [preClose] using this

/-! ### reading it back -/

/-- what a LasData consists of, for the file format (as in C01) -/
structure ImageOK (h : Hdr) (chunks : List (List Rec)) : Prop where
  fmt : Gen.formatIds.contains (fmtOf h) = true
  recLen : Gen.recLen (fmtOf h) ≤ h.recLen
  pos : 0 < h.recLen
  recs : ∀ r ∈ chunks.flatten, r.length = h.recLen

/-- **compressed round trip, for every backend honouring the contract**: a compressed session
    succeeds, and reading its output returns the records written (byte-identical, whatever
    the chunking), the EVLRs, and the final header with the backend's LasZip record hidden. -/
theorem C14_file_roundtrip {F} (cd : Codec) (hl : CodecLaws cd) (o : FOps F) (h : Hdr) (chunks : List (List Rec))
    (ev : List Vlr) (ok : SessionOKC cd o h chunks ev) (img : ImageOK h chunks)
    (single : NoLasZip (popLasZip h.vlrs)) :
    ∃ file, sessionC cd o h (sessionOps h chunks ev) = .ok file ∧
      readFileC cd file = .ok { hdr := { canon (finalHdrC cd o h chunks ev) with vlrs := popLasZip h.vlrs },
                                records := chunks.flatten, evlrs := ev.map factory } := by
  obtain ⟨vb, eb, hvb, heb, hHLF, hdec, hebdec, hwF, hs⟩ := sessionC_form cd o h chunks ev ok
  refine ⟨_, hs, ?_⟩
  generalize hfin : finalHdrC cd o h chunks ev = fin at *
  have hvl : (encForm fin vb).length = base fin.vMinor + fin.extraHeader.length + vb.length + fin.extraVlr.length :=
    encForm_length fin hwF vb
  have hfv : fin.vlrs = (compHdr cd h).vlrs := by subst hfin; rfl
  have hoff : base fin.vMinor + fin.extraHeader.length + vb.length + fin.extraVlr.length < 2 ^ 32 := by
    rw [← hvl, hHLF]; exact ok.offset
  have hhs : base fin.vMinor + fin.extraHeader.length < 2 ^ 16 := by subst hfin; exact ok.hsize
  obtain ⟨hd, hfo⟩ := LasModel.Appender.decode_form fin hwF vb (streamOf cd h chunks ++ eb)
    (by intro rest; rw [hfv]; exact hdec rest) hhs hoff
  rw [List.append_assoc]
  unfold readFileC
  rw [hd]
  simp only
  have hbyte : (canon fin).fmtByte = Gen.Compression.uncompressed_id_to_compressed (fmtOf h) := by subst hfin; rfl
  obtain ⟨_, _, hcomp, hunc⟩ := toCompressed_mod (fmtOf h) (fmtOf_lt h)
  rw [hbyte, hcomp, hunc]
  simp only [not_true_eq_false, if_false, img.fmt]
  have hrl : (canon fin).recLen = h.recLen := by subst hfin; rfl
  have hnl : ¬ ((canon fin).recLen < Gen.recLen (fmtOf h)) := by rw [hrl]; have := img.recLen; omega
  simp only [hnl, if_false]
  have hcount : (canon fin).count = chunks.flatten.length := by
    subst hfin
    show (finalStats o h chunks).count = _
    unfold finalStats
    rw [foldStats_count]; simp [resetStats]
  have hvlrs : popLasZip (canon fin).vlrs = popLasZip h.vlrs := by
    show popLasZip fin.vlrs = _
    rw [hfv]
    exact popLasZip_append_lz single _
  -- EVLRs: at the position recorded after the compressed stream
  have hevl : readEvlrs (canon fin) (encForm fin vb ++ (streamOf cd h chunks ++ eb)) = ev.map factory := by
    unfold readEvlrs
    have c4 : (canon fin).vMinor = h.vMinor := by subst hfin; rfl
    rw [c4]
    by_cases hemp : ev.isEmpty = true
    · have hev0 : ev = [] := List.isEmpty_iff.mp hemp
      subst hev0
      have : (canon fin).nEvlrs = 0 := by subst hfin; simp [canon, finalHdrC, withStats]
      simp [this]
    · have h4 : h.vMinor ≥ 4 := by
        by_cases h4 : h.vMinor ≥ 4
        · exact h4
        · have := ok.evVersion (by omega); subst this; simp at hemp
      have hne : (canon fin).nEvlrs = ev.length := by
        subst hfin; simp [canon, finalHdrC, withStats, hemp, compHdr, h4]
      have hse : (canon fin).evlrStart = (encForm fin vb).length + (streamOf cd h chunks).length := by
        rw [hHLF]; subst hfin; simp [canon, finalHdrC, withStats, hemp, compHdr, h4]
      have hpos' : ev.length > 0 := by
        cases hh : ev with
        | nil => simp [hh] at hemp
        | cons a l => simp
      rw [hne, hse]
      simp only [h4, hpos', and_self, if_true]
      have : (encForm fin vb ++ (streamOf cd h chunks ++ eb)).drop ((encForm fin vb).length + (streamOf cd h chunks).length) = eb := by
        rw [← List.append_assoc, ← List.length_append]; exact List.drop_left
      rw [this]
      have := hebdec []
      simp only [List.append_nil] at this
      rw [this]
  by_cases hz : (canon fin).count = 0
  · simp only [hz, if_true, hvlrs, hevl]
    have : chunks.flatten = [] := by
      rw [hcount] at hz; exact List.eq_nil_of_length_eq_zero hz
    rw [this]
  · simp only [hz, if_false]
    have hfind : findLasZip (canon fin).vlrs = some (lasZipVlr (lzOf cd h)) := by
      show findLasZip fin.vlrs = _
      rw [hfv]; exact findLasZip_append_lz single _
    rw [hfind]
    simp only
    rw [hfo, List.drop_left]
    -- the backend contract
    have hlen : ∀ r ∈ (nonEmpty chunks).flatten, r.length = Gen.recLen (fmtOf h) + (h.recLen - Gen.recLen (fmtOf h)) := by
      intro r hr
      rw [nonEmpty_flatten] at hr
      have := img.recs r hr
      have := img.recLen
      omega
    have hit : Gen.recLen (fmtOf h) + (h.recLen - Gen.recLen (fmtOf h)) < 2 ^ 16 := by
      have := img.recLen; have := ok.wf.recLen; omega
    have hdecomp := hl (fmtOf h) (h.recLen - Gen.recLen (fmtOf h)) (headerLenOf (compHdr cd h)) (nonEmpty chunks) eb
      (canon fin).count hit hlen (by rw [nonEmpty_flatten, hcount]; exact Nat.le_refl _)
    have hpay : (lasZipVlr (lzOf cd h)).payload = cd.vlrData (fmtOf h) (h.recLen - Gen.recLen (fmtOf h)) := rfl
    rw [hpay]
    have hstream : streamOf cd h chunks = cd.compress (cd.vlrData (fmtOf h) (h.recLen - Gen.recLen (fmtOf h)))
        (headerLenOf (compHdr cd h)) (nonEmpty chunks) := rfl
    rw [← hstream] at hdecomp
    rw [hdecomp, nonEmpty_flatten, hcount, List.take_length]
    have hflat := flatten_length_uniform chunks.flatten h.recLen img.recs
    rw [hrl]
    simp only [hflat, ne_eq, not_true_eq_false, if_false, hvlrs, hevl]
    have := splitRecs_flatten chunks.flatten h.recLen img.recs []
    simp only [List.append_nil] at this
    rw [this]

/-- **transparency at file level**: compared with the uncompressed round trip of the same
    header, chunks and EVLRs (C01), the compressed round trip returns the same records, the
    same EVLRs and the same header — version, record length, scales, offsets, statistics,
    strings, the caller's VLRs — except the compressed bit of the point format byte and the
    position of the EVLR block.  The point format id itself (`fmtOf`) is the same. -/
theorem C14_file_transparent {F} (cd : Codec) (hl : CodecLaws cd) (o : FOps F) (h : Hdr) (chunks : List (List Rec))
    (ev : List Vlr) (okC : SessionOKC cd o h chunks ev) (img : ImageOK h chunks) (none : NoLasZip h.vlrs) :
    ∃ fileC rC, sessionC cd o h (sessionOps h chunks ev) = .ok fileC ∧ readFileC cd fileC = .ok rC ∧
      rC.records = chunks.flatten ∧ rC.evlrs = ev.map factory ∧
      rC.hdr = { canon (finalHdr o h chunks ev) with
                 fmtByte := Gen.Compression.uncompressed_id_to_compressed (fmtOf h),
                 evlrStart := (canon (finalHdrC cd o h chunks ev)).evlrStart } ∧
      fmtOf rC.hdr = fmtOf h := by
  have hpop := popLasZip_none none
  obtain ⟨file, hs, hr⟩ := C14_file_roundtrip cd hl o h chunks ev okC img (by rw [hpop]; exact none)
  refine ⟨file, _, hs, hr, rfl, rfl, ?_, ?_⟩
  · simp [canon, finalHdrC, finalHdr, withStats, compHdr, hpop]
  · exact fmtOf_compHdr cd h

/-! ### non-vacuity -/

/-- a concrete legal header: LAS 1.2, point format 0, 20-byte records, no VLR -/
def exHdr : Hdr :=
  { fileSourceId := 7, globalEncoding := 0, guid := List.replicate 16 0, vMajor := 1, vMinor := 2,
    systemId := [], software := [], doy := 60, year := 2024, fmtByte := 0, recLen := 20, count := 0,
    byReturn := List.replicate 15 0, doubles := List.replicate 12 0, waveformStart := 0, evlrStart := 0, nEvlrs := 0,
    extraHeader := [], vlrs := [], extraVlr := [] }

theorem exHdr_wf : exHdr.WF :=
  { fsid := by simp [exHdr]
    ge := by simp [exHdr]
    guid := by simp [exHdr]
    major := by simp [exHdr]
    minor := by simp [exHdr]
    sys := ⟨fun b hb => by simp [exHdr] at hb, by simp [exHdr]⟩
    soft := ⟨fun b hb => by simp [exHdr] at hb, by simp [exHdr]⟩
    doy := by simp [exHdr]
    year := by simp [exHdr]
    fmt := by simp [exHdr]
    recLen := by simp [exHdr]
    count := by simp [exHdr, maxPointCount]
    ret := ⟨by simp [exHdr], by intro r hr; simp only [exHdr, List.mem_replicate] at hr; rw [hr.2]; simp [exHdr]⟩
    doubles := ⟨by simp [exHdr], by intro d hd; simp only [exHdr, List.mem_replicate] at hd; rw [hd.2]; decide⟩
    wave := by simp [exHdr]
    evlr := by simp [exHdr]
    vlrs := by intro v hv; simp [exHdr] at hv
    nvlrs := by simp [exHdr] }

/-- a trivial interpretation of the float operations (the theorems hold for every one) -/
def unitOps : FOps Nat :=
  { render := fun _ _ => 0, gt := fun a b => decide (a > b), lt := fun a b => decide (a < b), bits := fun _ => 0,
    ofBits := fun _ => 0, lowest := 0, highest := 0, zero := 0 }

def exChunks : List (List Rec) := [[List.replicate 20 1, List.replicate 20 2], [], [List.replicate 20 3]]

/-- the hypotheses of `C14_file_roundtrip` are met by a concrete session on the backend double
    (chunk size 2, three records handed over in chunks of 2, 0 and 1): the theorem applies to it -/
example : ∃ file, sessionC (stubCodec 2) unitOps exHdr (sessionOps exHdr exChunks []) = .ok file ∧
    ∃ r, readFileC (stubCodec 2) file = .ok r ∧ r.records = exChunks.flatten := by
  have ok : SessionOKC (stubCodec 2) unitOps exHdr exChunks [] :=
    { wf := exHdr_wf
      bits := ⟨fun _ => by show (0 : Nat) < 2 ^ 64; decide⟩
      compat := ⟨(2, 0), rfl⟩
      lz := by decide +kernel
      nvlrs := by decide
      hsize := by decide
      offset := by decide +kernel
      cap := by decide
      evWF := by intro v hv; cases hv
      evVersion := fun _ => rfl
      evCount := by decide
      fileSize := by decide +kernel }
  have img : ImageOK exHdr exChunks :=
    { fmt := by decide +kernel
      recLen := by decide +kernel
      pos := by decide
      recs := by decide }
  obtain ⟨file, hs, hr⟩ := C14_file_roundtrip (stubCodec 2) (stub_codecLaws 2) unitOps exHdr exChunks [] ok img
    (by intro v hv; cases hv)
  exact ⟨file, hs, _, hr, rfl⟩

end LasModel.Props.C14File
