/-
C07 — header fields survive serialisation and the layout arithmetic is exact.
-/
import LasModel.Lemmas.HeaderRT
import LasModel.Model.Date
import LasModel.Model.Compat

namespace LasModel.Props.C07
open LasModel.Bytes LasModel.Strings LasModel.Vlr LasModel.Header LasModel.Compat

/-- the generated header sizes are the ones the versions prescribe -/
theorem C07_base_sizes :
    baseSize 1 = some 227 ∧ baseSize 2 = some 227 ∧ baseSize 3 = some 235 ∧ baseSize 4 = some 375 :=
  ⟨rfl, rfl, rfl, rfl⟩

/-- every header in the legal domain: writing succeeds, the bytes have exactly the size the
    version prescribes plus extra header bytes, VLRs (54 + payload each) and padding; that
    size is the recorded offset to point data; and reading the bytes back (with anything
    following them) reproduces every field. -/
theorem C07_roundtrip (h : Hdr) (hw : h.WF) (rest : Bytes)
    (hhs : base h.vMinor + h.extraHeader.length < 2 ^ 16)
    (hoff : base h.vMinor + h.extraHeader.length +
      (h.vlrs.map fun v => headerLen false + v.payload.length).sum + h.extraVlr.length < 2 ^ 32) :
    ∃ enc, encodeHdr h false 0 = .ok enc ∧
      enc.length = base h.vMinor + h.extraHeader.length +
        (h.vlrs.map fun v => headerLen false + v.payload.length).sum + h.extraVlr.length ∧
      fileOffset (enc ++ rest) = enc.length ∧
      decodeHdr (enc ++ rest) = .ok (canon h) := by
  obtain ⟨vb, hvb, hvl, hdec, henc⟩ := encodeHdr_eq h hw false 0
  rw [← hvl] at hoff ⊢
  simp only [Bool.false_and, Bool.false_eq_true, if_false] at henc
  obtain ⟨hfo, hpre⟩ := prefetch_encForm h hw vb rest hoff
  refine ⟨_, henc, encForm_length h hw vb, hfo, ?_⟩
  have hd : decodeHdr (encForm h vb ++ rest) = parseHdr (encForm h vb) := by
    unfold decodeHdr
    rw [hpre]
  rw [hd]
  exact parse_encForm h hw vb hdec hhs hoff

/-- in the legal domain of its version (five return counts and no EVLR / waveform fields
    where the version has none) the header read back *is* the header written -/
theorem C07_roundtrip_exact (h : Hdr) (hw : h.WF) (hc : canon h = h) (rest : Bytes)
    (hhs : base h.vMinor + h.extraHeader.length < 2 ^ 16)
    (hoff : base h.vMinor + h.extraHeader.length +
      (h.vlrs.map fun v => headerLen false + v.payload.length).sum + h.extraVlr.length < 2 ^ 32) :
    ∃ enc, encodeHdr h false 0 = .ok enc ∧ decodeHdr (enc ++ rest) = .ok h := by
  obtain ⟨enc, he, _, _, hd⟩ := C07_roundtrip h hw rest hhs hoff
  exact ⟨enc, he, by rw [hd, hc]⟩

/-- a statistics-only update of the header -/
def withStats (h : Hdr) (count : Nat) (byReturn doubles : List Nat) (evlrStart nEvlrs : Nat) : Hdr :=
  { h with count := count, byReturn := byReturn, doubles := doubles, evlrStart := evlrStart, nEvlrs := nEvlrs }

/-- rewriting an updated header in place never changes the offset to point data: with new
    statistics (count, per-return counts, extrema, EVLR pointer) the encoding has the same
    length and the same-size guard does not fire -/
theorem C07_inplace (h : Hdr) (hw : h.WF) (enc : Bytes) (he : encodeHdr h false 0 = .ok enc)
    (count : Nat) (byReturn doubles : List Nat) (evlrStart nEvlrs : Nat)
    (hw' : (withStats h count byReturn doubles evlrStart nEvlrs).WF) :
    ∃ enc', encodeHdr (withStats h count byReturn doubles evlrStart nEvlrs) true enc.length = .ok enc' ∧
      enc'.length = enc.length := by
  obtain ⟨vb, hvb, _, _, henc⟩ := encodeHdr_eq h hw false 0
  simp only [Bool.false_and, Bool.false_eq_true, if_false] at henc
  rw [henc] at he
  injection he with he
  subst he
  obtain ⟨vb', hvb', _, _, henc'⟩ := encodeHdr_eq _ hw' true (encForm h vb).length
  have hv : vb' = vb := by
    simp only [withStats] at hvb'
    rw [hvb] at hvb'; injection hvb' with e; exact e.symm
  subst hv
  have hl := encForm_length h hw vb'
  have hl' := encForm_length _ hw' vb'
  simp only [withStats] at hl' henc'
  rw [hl] at henc' ⊢
  simp only [bne_self_eq_false, Bool.and_false, Bool.false_eq_true, if_false] at henc'
  exact ⟨_, henc', hl'⟩

/-- every valid civil date survives write + read -/
theorem C07_date (c : Date.Civil) (h : c.Valid) : Date.fromYearDay c.y (Date.dayOfYear c) = .date c :=
  Date.fromYearDay_dayOfYear c h

/-- strings up to the full 32 bytes survive (the 32-byte boundary included) -/
theorem C07_string32 (s : Bytes) (hs : NulFree s) (hl : s.length ≤ 32) (rest : Bytes) :
    readString 32 (writeString s 32 ++ rest) = (s, rest) :=
  (readString_writeString s 32 rest hs hl).2

/-! ### an incompatible pair can never be produced by the API -/

theorem bind_ok {ε α β} (x : Except ε α) (g : α → Except ε β) (r : β) (h : (x >>= g) = .ok r) :
    ∃ a, x = .ok a ∧ g a = .ok r := by
  cases x with
  | error e => cases h
  | ok a => exact ⟨a, rfl, h⟩

theorem requireCompatible_ok (f v : Nat) (h : requireCompatible f v = .ok ()) : compatible v f := by
  unfold requireCompatible at h
  obtain ⟨b, hb, h2⟩ := bind_ok _ _ _ h
  unfold isCompatible at hb
  cases hl : formatsOf v with
  | none => simp [hl] at hb
  | some l =>
    simp only [hl] at hb
    injection hb with hb
    subst hb
    by_cases hc : l.contains f = true
    · exact ⟨l, hl, by simpa using hc⟩
    · simp only [hc] at h2; cases h2

theorem finish_ok (v f : Nat) (r : Nat × Nat) (h : finish v f = .ok r) : compatible r.1 r.2 := by
  unfold finish at h
  obtain ⟨u, hu, h2⟩ := bind_ok _ _ _ h
  cases u
  injection h2 with h2
  subst h2
  exact requireCompatible_ok f v hu

/-- construction (`LasHeader(…)`, `laspy.create`) -/
theorem C07_compat_mkHeader (v f : Option Nat) (r : Nat × Nat) (h : mkHeader v f = .ok r) :
    compatible r.1 r.2 := by
  unfold mkHeader at h
  obtain ⟨_, _, h⟩ := bind_ok _ _ _ h
  obtain ⟨p, _, h⟩ := bind_ok _ _ _ h
  exact finish_ok _ _ _ h

/-- setters -/
theorem C07_compat_setVersion (cur : Nat × Nat) (v : Nat) (r : Nat × Nat) (h : setVersion cur v = .ok r) :
    compatible r.1 r.2 := finish_ok _ _ _ h

theorem C07_compat_setFormat (cur : Nat × Nat) (f : Nat) (r : Nat × Nat) (h : setFormat cur f = .ok r) :
    compatible r.1 r.2 := by
  unfold setFormat at h
  obtain ⟨_, _, h⟩ := bind_ok _ _ _ h
  exact finish_ok _ _ _ h

theorem C07_compat_setBoth (v f : Nat) (r : Nat × Nat) (h : setBoth v f = .ok r) :
    compatible r.1 r.2 := by
  unfold setBoth at h
  obtain ⟨_, _, h⟩ := bind_ok _ _ _ h
  obtain ⟨_, _, h⟩ := bind_ok _ _ _ h
  exact finish_ok _ _ _ h

/-- conversion, implicit or explicit target version -/
theorem C07_compat_convert (cur f : Nat) (req : Option Nat) (r : Nat × Nat) (h : convert cur f req = .ok r) :
    compatible r.1 r.2 := by
  unfold convert at h
  obtain ⟨v, _, h⟩ := bind_ok _ _ _ h
  exact C07_compat_setBoth v f r h

/-- a writer can only be created for a compatible pair -/
theorem C07_compat_writer (cur r : Nat × Nat) (h : writerInit cur = .ok r) :
    compatible r.1 r.2 ∧ r = cur := by
  refine ⟨finish_ok _ _ _ h, ?_⟩
  unfold writerInit finish at h
  obtain ⟨u, _, h2⟩ := bind_ok _ _ _ h
  injection h2 with h2
  exact h2.symm

/-- the compatibility table itself is the one of the specification -/
theorem C07_table : Gen.versionFormats =
    [(1, [0, 1]), (2, [0, 1, 2, 3]), (3, [0, 1, 2, 3, 4, 5]), (4, [0, 1, 2, 3, 4, 5, 6, 7, 8, 9, 10])] := rfl

/-- non-vacuity -/
example : mkHeader (some 4) (some 6) = .ok (4, 6) := by rfl
example : mkHeader (some 2) (some 6) = .error .incompatible := by rfl
example : convert 2 6 none = .ok (4, 6) := by rfl

end LasModel.Props.C07
