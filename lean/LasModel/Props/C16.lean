/-
C16 — COPC HTTP fetching is schedule-independent and always terminates.
All statements quantify over every number of ranges ≥ 1, every worker count ≥ 1, every subset
of failing requests and every schedule.
-/
import LasModel.Model.Http

namespace LasModel.Props.C16
open LasModel.Http

/-! ### list bookkeeping -/

theorem sumL_set (g : WPc → Nat) (l : List WPc) (i : Nat) (old pc : WPc) (h : l[i]? = some old) :
    sumL g (l.set i pc) + g old = sumL g l + g pc := by
  induction l generalizing i with
  | nil => simp at h
  | cons x xs ih =>
    cases i with
    | zero => simp at h; subst h; simp [sumL]; omega
    | succ j =>
      simp only [List.getElem?_cons_succ] at h
      have := ih j h
      simp only [List.set_cons_succ, sumL]; omega

theorem sumL_all_done (g : WPc → Nat) (hg : g .done = 0) (l : List WPc) (h : ∀ pc ∈ l, pc = .done) : sumL g l = 0 := by
  induction l with
  | nil => rfl
  | cons x xs ih =>
    simp only [sumL]
    rw [h x List.mem_cons_self, hg, ih (fun pc hp => h pc (List.mem_cons_of_mem _ hp))]

theorem mem_of_getElem? {l : List WPc} {i : Nat} {pc : WPc} (h : l[i]? = some pc) : pc ∈ l :=
  List.mem_of_getElem? h

/-! ### C16_measure: every step decreases `mu` — every schedule is finite -/

theorem measure_worker (cfg : Cfg) (hn : cfg.nowait = true) (s s' : Sys) (i : Nat)
    (h : stepWorker cfg s i = some s') : mu s' < mu s := by
  unfold stepWorker at h
  cases hw : s.workers[i]? with
  | none => rw [hw] at h; cases h
  | some pc =>
    rw [hw] at h
    cases pc with
    | top =>
      simp only [hn, if_true] at h
      cases hp : s.pending with
      | nil =>
        rw [hp] at h; injection h with h; subst h
        have := sumL_set wWeight s.workers i .top .done hw
        simp only [mu, List.length_set, hp, wWeight] at *; omega
      | cons r rest =>
        rw [hp] at h; injection h with h; subst h
        have := sumL_set wWeight s.workers i .top (.fetch r) hw
        simp only [mu, List.length_set, hp, wWeight, List.length_cons] at *; omega
    | get =>
      cases hp : s.pending with
      | nil => rw [hp] at h; cases h
      | cons r rest =>
        rw [hp] at h; injection h with h; subst h
        have := sumL_set wWeight s.workers i .get (.fetch r) hw
        simp only [mu, List.length_set, hp, wWeight, List.length_cons] at *; omega
    | fetch r =>
      injection h with h; subst h
      have := sumL_set wWeight s.workers i (.fetch r) (.put r (!cfg.fails r)) hw
      simp only [mu, List.length_set, wWeight] at *; omega
    | put r ok =>
      injection h with h; subst h
      have := sumL_set wWeight s.workers i (.put r ok) .taskDone hw
      simp only [mu, List.length_set, wWeight] at *; omega
    | taskDone =>
      injection h with h; subst h
      have := sumL_set wWeight s.workers i .taskDone .top hw
      simp only [mu, List.length_set, wWeight] at *; omega
    | done => cases h

theorem measure_main (cfg : Cfg) (s s' : Sys) (h : stepMain cfg s = some s') : mu s' < mu s := by
  unfold stepMain at h
  cases hm : s.main with
  | joinQ =>
    rw [hm] at h
    simp only at h
    split at h
    · injection h with h; subst h
      simp only [mu, hm]
      split <;> simp [mWeight] <;> omega
    · cases h
  | joinT i =>
    rw [hm] at h
    simp only at h
    split at h
    · next hd =>
      injection h with h; subst h
      have hi : i < s.workers.length := by
        rcases Nat.lt_or_ge i s.workers.length with h1 | h1
        · exact h1
        · rw [List.getElem?_eq_none h1] at hd; cases hd
      simp only [mu, hm]
      split <;> simp [mWeight] <;> omega
    · cases h
  | drain =>
    rw [hm] at h; injection h with h; subst h
    simp [mu, hm, mWeight]
  | finished o => rw [hm] at h; cases h

/-- **every step strictly decreases a natural-number measure**: no schedule is infinite, the query
    terminates without any fairness assumption -/
theorem C16_measure (cfg : Cfg) (hn : cfg.nowait = true) (s s' : Sys) (t : Nat) (h : step cfg s t = some s') :
    mu s' < mu s := by
  unfold step at h
  split at h
  · exact measure_main cfg s s' h
  · exact measure_worker cfg hn s s' _ h

def holding : WPc → Nat
  | .fetch _ => 1
  | .put _ _ => 1
  | .taskDone => 1
  | _ => 0

def holdsReq (r : Req) : WPc → Nat
  | .fetch r' => if r' = r then 1 else 0
  | .put r' _ => if r' = r then 1 else 0
  | _ => 0

/-- the invariant of the protocol (for the code as it is: `get_nowait`, workers joined) -/
structure Inv (cfg : Cfg) (reqs : List Req) (s : Sys) : Prop where
  nonempty : 0 < s.workers.length
  unf : s.unfinished = s.pending.length + sumL holding s.workers
  doneEmpty : WPc.done ∈ s.workers → s.pending = []
  noGet : WPc.get ∉ s.workers
  acct : ∀ r, s.pending.count r + sumL (holdsReq r) s.workers + (s.results.map (·.1)).count r = reqs.count r
  resOk : ∀ x ∈ s.results, x.2 = !cfg.fails x.1
  putOk : ∀ r ok, WPc.put r ok ∈ s.workers → ok = !cfg.fails r
  mainQ : s.main ≠ .joinQ → s.unfinished = 0
  mainT : ∀ i, s.main = .joinT i → i < s.workers.length ∧ ∀ j < i, s.workers[j]? = some .done
  mainD : (s.main = .drain ∨ ∃ o, s.main = .finished o) → ∀ pc ∈ s.workers, pc = .done
  fin : ∀ o, s.main = .finished o → o = outcome s.results

theorem sumL_replicate (g : WPc → Nat) (pc : WPc) (hg : g pc = 0) (n : Nat) : sumL g (List.replicate n pc) = 0 := by
  induction n with
  | zero => rfl
  | succ n ih => simp [List.replicate_succ, sumL, hg, ih]

theorem inv_init (cfg : Cfg) (reqs : List Req) (threads : Nat) (hr : reqs ≠ []) (ht : 0 < threads) :
    Inv cfg reqs (init reqs threads) := by
  have hlen : 0 < reqs.length := List.length_pos_iff.mpr hr
  refine ⟨?_, ?_, ?_, ?_, ?_, ?_, ?_, ?_, ?_, ?_, ?_⟩
  · simp [init]; omega
  · simp [init, sumL_replicate holding .top rfl]
  · intro h; simp [init, List.mem_replicate] at h
  · intro h; simp [init, List.mem_replicate] at h
  · intro r; simp [init, sumL_replicate (holdsReq r) .top rfl]
  · intro x hx; simp [init] at hx
  · intro r ok h; simp [init, List.mem_replicate] at h
  · intro h; exact absurd rfl h
  · intro i h; simp [init] at h
  · intro h; rcases h with h | ⟨o, h⟩ <;> simp [init] at h
  · intro o h; simp [init] at h

/-- what every worker step looks like -/
theorem worker_step_old (cfg : Cfg) (s s' : Sys) (i : Nat) (h : stepWorker cfg s i = some s') :
    ∃ pc, s.workers[i]? = some pc ∧ pc ≠ .done := by
  unfold stepWorker at h
  cases hw : s.workers[i]? with
  | none => rw [hw] at h; cases h
  | some pc =>
    refine ⟨pc, rfl, ?_⟩
    intro hd; subst hd; rw [hw] at h; cases h

theorem mem_set_cases {l : List WPc} {i : Nat} {a b : WPc} (h : a ∈ l.set i b) : a ∈ l ∨ a = b :=
  List.mem_or_eq_of_mem_set h

theorem inv_worker (cfg : Cfg) (hn : cfg.nowait = true) (reqs : List Req) (s s' : Sys) (i : Nat)
    (hI : Inv cfg reqs s) (h : stepWorker cfg s i = some s') : Inv cfg reqs s' := by
  obtain ⟨pc0, hw0, hnd⟩ := worker_step_old cfg s s' i h
  have hmem0 : pc0 ∈ s.workers := mem_of_getElem? hw0
  have hmain : ¬ (s.main = .drain ∨ ∃ o, s.main = .finished o) := fun hm => hnd (hI.mainD hm pc0 hmem0)
  -- facts shared by all cases: the main thread's fields
  have keepT : ∀ (new : WPc), ∀ k, s.main = .joinT k →
      k < (s.workers.set i new).length ∧ ∀ j < k, (s.workers.set i new)[j]? = some .done := by
    intro new k hk
    obtain ⟨h1, h2⟩ := hI.mainT k hk
    refine ⟨by simpa using h1, ?_⟩
    intro j hj
    have hji : i ≠ j := by
      intro e; subst e
      rw [h2 i hj] at hw0; injection hw0 with e; exact hnd e.symm
    rw [List.getElem?_set_ne hji]; exact h2 j hj
  unfold stepWorker at h
  rw [hw0] at h
  cases pc0 with
  | top =>
    simp only [hn, if_true] at h
    cases hp : s.pending with
    | nil =>
      rw [hp] at h; injection h with h; subst h
      have e1 := sumL_set holding s.workers i .top .done hw0
      refine ⟨by simpa using hI.nonempty, ?_, ?_, ?_, ?_, hI.resOk, ?_, hI.mainQ, keepT _, ?_, ?_⟩
      · have := hI.unf; simp only [holding, hp] at *; omega
      · intro _; rfl
      · intro hg; rcases mem_set_cases hg with hg | hg
        · exact hI.noGet hg
        · cases hg
      · intro r
        have e2 := sumL_set (holdsReq r) s.workers i .top .done hw0
        have := hI.acct r; simp only [holdsReq, hp] at *; omega
      · intro r ok hm; rcases mem_set_cases hm with hm | hm
        · exact hI.putOk r ok hm
        · cases hm
      · intro hm; exact absurd hm hmain
      · intro o hm; exact absurd (Or.inr ⟨o, hm⟩) hmain
    | cons r rest =>
      rw [hp] at h; injection h with h; subst h
      have e1 := sumL_set holding s.workers i .top (.fetch r) hw0
      refine ⟨by simpa using hI.nonempty, ?_, ?_, ?_, ?_, hI.resOk, ?_, hI.mainQ, keepT _, ?_, ?_⟩
      · have := hI.unf; simp only [holding, hp, List.length_cons] at *; omega
      · intro hd; rcases mem_set_cases hd with hd | hd
        · have := hI.doneEmpty hd; rw [hp] at this; cases this
        · cases hd
      · intro hg; rcases mem_set_cases hg with hg | hg
        · exact hI.noGet hg
        · cases hg
      · intro q
        have e2 := sumL_set (holdsReq q) s.workers i .top (.fetch r) hw0
        have := hI.acct q
        simp only [holdsReq, hp, List.count_cons] at *
        by_cases hq : r = q <;> simp [hq] at * <;> omega
      · intro q ok hm; rcases mem_set_cases hm with hm | hm
        · exact hI.putOk q ok hm
        · cases hm
      · intro hm; exact absurd hm hmain
      · intro o hm; exact absurd (Or.inr ⟨o, hm⟩) hmain
  | get => exact absurd hmem0 hI.noGet
  | fetch r =>
    injection h with h; subst h
    have e1 := sumL_set holding s.workers i (.fetch r) (.put r (!cfg.fails r)) hw0
    refine ⟨by simpa using hI.nonempty, ?_, ?_, ?_, ?_, hI.resOk, ?_, hI.mainQ, keepT _, ?_, ?_⟩
    · have := hI.unf; simp only [holding] at *; omega
    · intro hd; rcases mem_set_cases hd with hd | hd
      · exact hI.doneEmpty hd
      · cases hd
    · intro hg; rcases mem_set_cases hg with hg | hg
      · exact hI.noGet hg
      · cases hg
    · intro q
      have e2 := sumL_set (holdsReq q) s.workers i (.fetch r) (.put r (!cfg.fails r)) hw0
      have := hI.acct q
      simp only [holdsReq] at *; omega
    · intro q ok hm; rcases mem_set_cases hm with hm | hm
      · exact hI.putOk q ok hm
      · injection hm with h1 h2; subst h1; subst h2; rfl
    · intro hm; exact absurd hm hmain
    · intro o hm; exact absurd (Or.inr ⟨o, hm⟩) hmain
  | put r ok =>
    injection h with h; subst h
    have e1 := sumL_set holding s.workers i (.put r ok) .taskDone hw0
    refine ⟨by simpa using hI.nonempty, ?_, ?_, ?_, ?_, ?_, ?_, hI.mainQ, keepT _, ?_, ?_⟩
    · have := hI.unf; simp only [holding] at *; omega
    · intro hd; rcases mem_set_cases hd with hd | hd
      · exact hI.doneEmpty hd
      · cases hd
    · intro hg; rcases mem_set_cases hg with hg | hg
      · exact hI.noGet hg
      · cases hg
    · intro q
      have e2 := sumL_set (holdsReq q) s.workers i (.put r ok) .taskDone hw0
      have := hI.acct q
      simp only [holdsReq, List.map_append, List.count_append, List.map_cons, List.map_nil, List.count_cons, List.count_nil] at *
      by_cases hq : r = q <;> simp [hq] at * <;> omega
    · intro x hx
      rw [List.mem_append] at hx
      rcases hx with hx | hx
      · exact hI.resOk x hx
      · simp only [List.mem_singleton] at hx; subst hx; exact hI.putOk r ok hmem0
    · intro q ok' hm; rcases mem_set_cases hm with hm | hm
      · exact hI.putOk q ok' hm
      · cases hm
    · intro hm; exact absurd hm hmain
    · intro o hm; exact absurd (Or.inr ⟨o, hm⟩) hmain
  | taskDone =>
    injection h with h; subst h
    have e1 := sumL_set holding s.workers i .taskDone .top hw0
    refine ⟨by simpa using hI.nonempty, ?_, ?_, ?_, ?_, hI.resOk, ?_, ?_, keepT _, ?_, ?_⟩
    · have := hI.unf; simp only [holding] at *; omega
    · intro hd; rcases mem_set_cases hd with hd | hd
      · exact hI.doneEmpty hd
      · cases hd
    · intro hg; rcases mem_set_cases hg with hg | hg
      · exact hI.noGet hg
      · cases hg
    · intro q
      have e2 := sumL_set (holdsReq q) s.workers i .taskDone .top hw0
      have := hI.acct q
      simp only [holdsReq] at *; omega
    · intro q ok hm; rcases mem_set_cases hm with hm | hm
      · exact hI.putOk q ok hm
      · cases hm
    · intro hm; have := hI.mainQ hm; simp only; omega
    · intro hm; exact absurd hm hmain
    · intro o hm; exact absurd (Or.inr ⟨o, hm⟩) hmain
  | done => exact absurd rfl hnd

theorem inv_main (cfg : Cfg) (hj : cfg.joinThreads = true) (reqs : List Req) (s s' : Sys)
    (hI : Inv cfg reqs s) (h : stepMain cfg s = some s') : Inv cfg reqs s' := by
  unfold stepMain at h
  cases hm : s.main with
  | joinQ =>
    rw [hm] at h
    simp only at h
    split at h
    · next hu =>
      injection h with h; subst h
      have hpos : decide (0 < s.workers.length) = true := by simpa using hI.nonempty
      simp only [hj, hpos, Bool.and_self, if_true]
      refine ⟨hI.nonempty, hI.unf, hI.doneEmpty, hI.noGet, hI.acct, hI.resOk, hI.putOk, fun _ => hu, ?_, ?_, ?_⟩
      · intro i hi; injection hi with hi; subst hi
        exact ⟨hI.nonempty, fun j hj => absurd hj (Nat.not_lt_zero j)⟩
      · intro h; rcases h with h | ⟨o, h⟩ <;> cases h
      · intro o h; cases h
    · cases h
  | joinT i =>
    rw [hm] at h
    simp only at h
    split at h
    · next hd =>
      injection h with h; subst h
      obtain ⟨hi, hprev⟩ := hI.mainT i hm
      have hu := hI.mainQ (by rw [hm]; intro e; cases e)
      by_cases hnext : i + 1 < s.workers.length
      · simp only [hnext, if_true]
        refine ⟨hI.nonempty, hI.unf, hI.doneEmpty, hI.noGet, hI.acct, hI.resOk, hI.putOk, fun _ => hu, ?_, ?_, ?_⟩
        · intro k hk; injection hk with hk; subst hk
          refine ⟨hnext, ?_⟩
          intro j hj
          by_cases e : j = i
          · subst e; exact hd
          · exact hprev j (by omega)
        · intro h; rcases h with h | ⟨o, h⟩ <;> cases h
        · intro o h; cases h
      · simp only [hnext, if_false]
        refine ⟨hI.nonempty, hI.unf, hI.doneEmpty, hI.noGet, hI.acct, hI.resOk, hI.putOk, fun _ => hu, ?_, ?_, ?_⟩
        · intro k hk; cases hk
        · intro _ pc hpc
          obtain ⟨j, hjl, hj⟩ := List.mem_iff_getElem.mp hpc
          have hjl' : j < s.workers.length := hjl
          have hj' : s.workers[j]? = some pc := by rw [List.getElem?_eq_getElem hjl', ← hj]
          by_cases e : j = i
          · subst e; rw [hd] at hj'; injection hj' with e; exact e.symm
          · rw [hprev j (by omega)] at hj'; injection hj' with e; exact e.symm
        · intro o h; cases h
    · cases h
  | drain =>
    rw [hm] at h; injection h with h; subst h
    have hu := hI.mainQ (by rw [hm]; intro e; cases e)
    refine ⟨hI.nonempty, hI.unf, hI.doneEmpty, hI.noGet, hI.acct, hI.resOk, hI.putOk, fun _ => hu, ?_, ?_, ?_⟩
    · intro k hk; cases hk
    · intro _; exact hI.mainD (Or.inl hm)
    · intro o h; injection h with h; exact h.symm
  | finished o => rw [hm] at h; cases h

theorem inv_step (cfg : Cfg) (hn : cfg.nowait = true) (hj : cfg.joinThreads = true) (reqs : List Req) (s s' : Sys) (t : Nat)
    (hI : Inv cfg reqs s) (h : step cfg s t = some s') : Inv cfg reqs s' := by
  unfold step at h
  split at h
  · exact inv_main cfg hj reqs s s' hI h
  · exact inv_worker cfg hn reqs s s' _ hI h

/-- the invariant holds in every state any schedule reaches -/
theorem inv_run (cfg : Cfg) (hn : cfg.nowait = true) (hj : cfg.joinThreads = true) (reqs : List Req) (s : Sys)
    (sched : List Nat) (hI : Inv cfg reqs s) : Inv cfg reqs (run cfg s sched) := by
  induction sched generalizing s with
  | nil => exact hI
  | cons t ts ih =>
    simp only [run]
    cases hs : step cfg s t with
    | none => simpa using ih s hI
    | some s' => simpa using ih s' (inv_step cfg hn hj reqs s s' t hI hs)

/-- **no reachable state is stuck with a thread left behind**: when no thread can move, the caller has
    returned (or raised) and every worker has finished — none is blocked -/
theorem C16_terminal (cfg : Cfg) (hn : cfg.nowait = true) (reqs : List Req) (s : Sys) (hI : Inv cfg reqs s)
    (hq : ∀ t, step cfg s t = none) : (∃ o, s.main = .finished o) ∧ ∀ pc ∈ s.workers, pc = .done := by
  have hall : ∀ pc ∈ s.workers, pc = .done := by
    intro pc hpc
    obtain ⟨j, hjl, hj⟩ := List.mem_iff_getElem.mp hpc
    have hj' : s.workers[j]? = some pc := by rw [List.getElem?_eq_getElem hjl, hj]
    have hs := hq (j + 1)
    simp only [step, Nat.add_one_ne_zero, if_false, Nat.add_sub_cancel, stepWorker, hj'] at hs
    cases pc with
    | top =>
      simp only [hn, if_true] at hs
      cases hp : s.pending <;> rw [hp] at hs <;> cases hs
    | get => exact absurd hpc hI.noGet
    | fetch r => cases hs
    | put r ok => cases hs
    | taskDone => cases hs
    | done => rfl
  refine ⟨?_, hall⟩
  have h0 := hq 0
  simp only [step, if_true, stepMain] at h0
  have hdone : WPc.done ∈ s.workers := by
    obtain ⟨pc, hpc⟩ := List.exists_mem_of_length_pos hI.nonempty
    rw [hall pc hpc] at hpc; exact hpc
  have hunf : s.unfinished = 0 := by
    rw [hI.unf, hI.doneEmpty hdone, sumL_all_done holding rfl _ hall]; rfl
  cases hm : s.main with
  | joinQ => rw [hm] at h0; simp [hunf] at h0
  | joinT i =>
    rw [hm] at h0
    obtain ⟨hi, _⟩ := hI.mainT i hm
    have : s.workers[i]? = some .done := by
      rw [List.getElem?_eq_getElem hi]; congr; exact hall _ (List.getElem_mem hi)
    simp [this] at h0
  | drain => rw [hm] at h0; cases h0
  | finished o => exact ⟨o, rfl⟩

/-- when the caller returns or raises, every worker it started has finished -/
theorem C16_joined (cfg : Cfg) (reqs : List Req) (s : Sys) (hI : Inv cfg reqs s) (o : Outcome)
    (hm : s.main = .finished o) : ∀ pc ∈ s.workers, pc = .done :=
  hI.mainD (Or.inr ⟨o, hm⟩)

theorem leOff_trans (a b c : Req) : leOff a b = true → leOff b c = true → leOff a c = true := by
  unfold leOff; simp only [decide_eq_true_eq]; omega

theorem leOff_total (a b : Req) : (leOff a b || leOff b a) = true := by
  unfold leOff; simp only [Bool.or_eq_true, decide_eq_true_eq]; omega

/-- **the outcome does not depend on the schedule**: when the caller has finished, it raised exactly
    when some request failed, and otherwise it assembled every block exactly once in offset order —
    nothing missing, nothing misplaced -/
theorem C16_result (cfg : Cfg) (reqs : List Req) (s : Sys) (hI : Inv cfg reqs s) (o : Outcome)
    (hm : s.main = .finished o) (hoff : ∀ a ∈ reqs, ∀ b ∈ reqs, a.offset = b.offset → a = b) :
    o = if reqs.any cfg.fails then .raised else .data (reqs.mergeSort leOff) := by
  have hall := hI.mainD (Or.inr ⟨o, hm⟩)
  have hdone : WPc.done ∈ s.workers := by
    obtain ⟨pc, hpc⟩ := List.exists_mem_of_length_pos hI.nonempty
    rw [hall pc hpc] at hpc; exact hpc
  have hperm : (s.results.map (·.1)).Perm reqs := by
    rw [List.perm_iff_count]
    intro r
    have := hI.acct r
    rw [hI.doneEmpty hdone, sumL_all_done (holdsReq r) rfl _ hall] at this
    simpa using this
  rw [hI.fin o hm]
  unfold outcome
  have hany : (s.results.any fun x => !x.2) = reqs.any cfg.fails := by
    rw [Bool.eq_iff_iff, List.any_eq_true, List.any_eq_true]
    constructor
    · rintro ⟨x, hx, hb⟩
      refine ⟨x.1, hperm.mem_iff.mp (List.mem_map.mpr ⟨x, hx, rfl⟩), ?_⟩
      have := hI.resOk x hx
      rw [this] at hb; simpa using hb
    · rintro ⟨r, hr, hf⟩
      obtain ⟨x, hx, rfl⟩ := List.mem_map.mp (hperm.mem_iff.mpr hr)
      exact ⟨x, hx, by rw [hI.resOk x hx]; simpa using hf⟩
  rw [hany]
  split
  · rfl
  · congr 1
    apply List.Perm.eq_of_pairwise (le := fun a b => leOff a b = true)
    · intro a b ha hb hab hba
      have ha' : a ∈ reqs := hperm.mem_iff.mp (List.mem_mergeSort.mp ha)
      have hb' : b ∈ reqs := List.mem_mergeSort.mp hb
      apply hoff a ha' b hb'
      unfold leOff at hab hba; simp only [decide_eq_true_eq] at hab hba; omega
    · exact List.pairwise_mergeSort leOff_trans leOff_total _
    · exact List.pairwise_mergeSort leOff_trans leOff_total _
    · exact (List.mergeSort_perm _ _).trans (hperm.trans (List.mergeSort_perm _ _).symm)

/-- a run in which every scheduled thread was able to move -/
inductive Exec (cfg : Cfg) : Sys → List Nat → Sys → Prop
  | nil (s : Sys) : Exec cfg s [] s
  | cons {s s' s'' : Sys} (t : Nat) (ts : List Nat) : step cfg s t = some s' → Exec cfg s' ts s'' → Exec cfg s (t :: ts) s''

/-- **every execution is finite, with an explicit bound**: at most `mu` of the initial state steps
    (5 per range, a few per thread) — whatever the schedule, no fairness needed -/
theorem C16_bound (cfg : Cfg) (hn : cfg.nowait = true) (s s' : Sys) (sched : List Nat) (h : Exec cfg s sched s') :
    sched.length + mu s' ≤ mu s := by
  induction h with
  | nil => simp
  | cons t ts hs _ ih =>
    have := C16_measure cfg hn _ _ t hs
    simp only [List.length_cons]; omega

/-- **C16, end to end**: for every non-empty list of ranges with distinct offsets, every worker count,
    every set of failing requests and every schedule: once no thread can move, the caller has finished
    with the schedule-independent outcome and every worker has finished -/
theorem C16_schedule_independent (fails : Req → Bool) (reqs : List Req) (threads : Nat) (hr : reqs ≠ []) (ht : 0 < threads)
    (hoff : ∀ a ∈ reqs, ∀ b ∈ reqs, a.offset = b.offset → a = b) (sched : List Nat) :
    let cfg : Cfg := ⟨true, true, fails⟩
    let s := run cfg (init reqs threads) sched
    (∀ t, step cfg s t = none) →
      s.main = .finished (if reqs.any fails then .raised else .data (reqs.mergeSort leOff)) ∧
      ∀ pc ∈ s.workers, pc = .done := by
  intro cfg s hq
  have hI : Inv cfg reqs s := inv_run cfg rfl rfl reqs _ sched (inv_init cfg reqs threads hr ht)
  obtain ⟨⟨o, ho⟩, hall⟩ := C16_terminal cfg rfl reqs s hI hq
  refine ⟨?_, hall⟩
  rw [ho, C16_result cfg reqs s hI o ho hoff]

/-- ranges already in offset order (as `_fetch_all_chunks` produces them) are assembled in that order:
    the same bytes as the sequential local read -/
theorem C16_sorted (reqs : List Req) (h : reqs.Pairwise (fun a b => leOff a b = true)) : reqs.mergeSort leOff = reqs :=
  List.mergeSort_of_pairwise h

/-- **the earlier shape of the worker loop deadlocks** (`empty()` then a blocking `get()`, workers not
    joined): two ranges, two workers; the caller returns while worker 2 is blocked in `get()` forever -/
theorem D16_old_shape_deadlock :
    let cfg : Cfg := ⟨false, false, fun _ => false⟩
    let s := run cfg (init [⟨100, 10⟩, ⟨200, 10⟩] 2) [1, 1, 1, 1, 1, 1, 2, 1, 1, 1, 1, 1, 0, 0]
    s.workers = [.done, .get] ∧ (∃ o, s.main = .finished o) ∧ ∀ t, step cfg s t = none := by
  refine ⟨by simp [run, step, stepWorker, stepMain, init], ⟨_, by simp [run, step, stepWorker, stepMain, init]; rfl⟩, ?_⟩
  intro t
  match t with
  | 0 => simp [run, step, stepWorker, stepMain, init]
  | 1 => simp [run, step, stepWorker, stepMain, init]
  | 2 => simp [run, step, stepWorker, stepMain, init]
  | t + 3 => simp [run, step, stepWorker, stepMain, init]

/-- non-vacuity: the invariant's initial state exists and moves -/
example : ∃ s', step ⟨true, true, fun _ => false⟩ (init [⟨100, 10⟩] 3) 1 = some s' := ⟨_, rfl⟩

end LasModel.Props.C16
