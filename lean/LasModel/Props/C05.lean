/-
C05 — the reader is a faithful cursor over the file's point sequence.
-/
import LasModel.Model.Reader

namespace LasModel.Props.C05
open LasModel.Bytes LasModel.Reader

/-- the generated `seek`: for SET / CUR / END the target is accepted iff it lies in
    [0, count), and then it is the new cursor; any other `whence` is a ValueError -/
theorem seek_spec (count : Nat) (c pos whence : Int) :
    Gen.Reader.seek count c pos whence =
      if whence = 0 ∨ whence = 1 ∨ whence = 2 then
        let target : Int := if whence = 0 then pos else if whence = 1 then c + pos else (count : Int) + pos
        if 0 ≤ target ∧ target < count then .ok target else .error "IndexError"
      else .error "ValueError" := by
  unfold Gen.Reader.seek
  by_cases h0 : whence = 0
  · subst h0
    simp only [beq_self_eq_true, if_true, true_or, Bool.not_eq_true', Bool.and_eq_false_imp, decide_eq_true_eq,
      decide_eq_false_iff_not, Bool.and_eq_true, Bool.not_eq_eq_eq_not, Bool.not_true]
    split <;> split <;> first | rfl | (exfalso; omega)
  · have b0 : (whence == (0 : Int)) = false := by simpa using h0
    by_cases h1 : whence = 1
    · subst h1
      simp only [b0, Bool.false_eq_true, if_false, beq_self_eq_true, if_true, or_true, true_or, h0,
        Bool.not_eq_true', Bool.and_eq_false_imp, decide_eq_true_eq, decide_eq_false_iff_not]
      split <;> split <;> first | rfl | (exfalso; omega)
    · have b1 : (whence == (1 : Int)) = false := by simpa using h1
      by_cases h2 : whence = 2
      · subst h2
        simp only [b0, b1, Bool.false_eq_true, if_false, beq_self_eq_true, if_true, or_true, h0, h1,
          Bool.not_eq_true', Bool.and_eq_false_imp, decide_eq_true_eq, decide_eq_false_iff_not]
        split <;> split <;> first | rfl | (exfalso; omega)
      · have b2 : (whence == (2 : Int)) = false := by simpa using h2
        simp [b0, b1, b2, h0, h1, h2]

/-- the cursor invariant -/
def Inv (s : RState) : Prop := 0 ≤ s.cursor ∧ s.cursor ≤ s.count

def abs (s : RState) : Spec := ⟨s.count, s.cursor.toNat⟩

/-- one step of the concrete reader is one step of the cursor specification, and the
    invariant `0 ≤ cursor ≤ count` is kept -/
theorem read_refines (s : RState) (hs : Inv s) (n : Int) :
    Inv (readPoints s n).1 ∧ abs (readPoints s n).1 = (specRead (abs s) n).1 ∧
    (readPoints s n).2.1 = (specRead (abs s) n).2.1 ∧ (readPoints s n).2.2 = (specRead (abs s) n).2.2 := by
  obtain ⟨h0, h1⟩ := hs
  unfold readPoints specRead abs Inv
  by_cases hl : (s.count : Int) - s.cursor ≤ 0
  · have hn : s.count - s.cursor.toNat = 0 := by omega
    simp only [hl, if_true, hn]
    refine ⟨⟨h0, h1⟩, ?_, by first | rfl | trivial, ?_⟩
    · split <;> simp
    · split <;> simp
  · simp only [hl, if_false]
    by_cases hn : n < 0
    · simp only [hn, if_true]
      refine ⟨by constructor <;> omega, ?_, by first | rfl | trivial, ?_⟩
      · simp; omega
      · omega
    · simp only [hn, if_false]
      refine ⟨by constructor <;> omega, ?_, by first | rfl | trivial, ?_⟩
      · simp; omega
      · omega

theorem step_refines (s : RState) (hs : Inv s) (op : ROp) :
    Inv (step s op).1 ∧ abs (step s op).1 = (specStep (abs s) op).1 ∧ (step s op).2 = (specStep (abs s) op).2 := by
  cases op with
  | read n =>
    obtain ⟨k1, k2, k3, k4⟩ := read_refines s hs n
    simp only [step, specStep]
    exact ⟨k1, k2, by rw [k3, k4]⟩
  | readAll =>
    obtain ⟨k1, k2, k3, k4⟩ := read_refines s hs (-1)
    simp only [step, specStep]
    exact ⟨k1, k2, by rw [k3, k4]⟩
  | next k =>
    obtain ⟨k1, k2, k3, k4⟩ := read_refines s hs k
    simp only [step, specStep]
    rw [← k4, ← k3]
    by_cases hl : (readPoints s k).2.2 = 0
    · simp only [hl, if_true]; exact ⟨k1, k2, trivial⟩
    · simp only [hl, if_false]; exact ⟨k1, k2, trivial⟩
  | seek pos whence =>
    obtain ⟨h0, h1⟩ := hs
    have hc : (s.cursor.toNat : Int) = s.cursor := by omega
    have hsk := seek_spec s.count s.cursor pos whence
    simp only [step, specStep, abs, hc]
    by_cases hw : whence = 0 ∨ whence = 1 ∨ whence = 2
    · simp only [hw, if_true] at hsk ⊢
      by_cases ht : 0 ≤ (if whence = 0 then pos else if whence = 1 then s.cursor + pos else (s.count : Int) + pos) ∧
          (if whence = 0 then pos else if whence = 1 then s.cursor + pos else (s.count : Int) + pos) < s.count
      · simp only [ht, and_self, if_true] at hsk ⊢
        rw [hsk]
        simp only [Inv]
        exact ⟨⟨ht.1, by omega⟩, by simp, by simp⟩
      · simp only [ht, if_false] at hsk ⊢
        rw [hsk]
        exact ⟨⟨h0, h1⟩, by simp, by simp⟩
    · simp only [hw, if_false] at hsk ⊢
      rw [hsk]
      exact ⟨⟨h0, h1⟩, by simp, by simp⟩

/-- **refinement**: every finite sequence of read_points / seek / chunk-iteration / read calls
    produces exactly the outputs (slices, returned cursors, IndexError, StopIteration) and the
    final cursor that the cursor specification predicts -/
theorem C05_refines (s : RState) (hs : Inv s) (ops : List ROp) :
    (run s ops).2 = (specRun (abs s) ops).2 ∧ abs (run s ops).1 = (specRun (abs s) ops).1 ∧ Inv (run s ops).1 := by
  induction ops generalizing s with
  | nil => exact ⟨rfl, rfl, hs⟩
  | cons op ops ih =>
    obtain ⟨i1, i2, i3⟩ := step_refines s hs op
    obtain ⟨j1, j2, j3⟩ := ih (step s op).1 i1
    simp only [run, specRun]
    rw [← i2, ← i3]
    exact ⟨by rw [j1], j2, j3⟩

/-- what the specification says about a read: it starts at the cursor, returns
    min(n, remaining) records (all remaining for n < 0), advances by that amount, and never
    reaches beyond the point count; on an exhausted or empty file it returns nothing -/
theorem C05_read (s : Spec) (hs : s.cursor ≤ s.count) (n : Int) :
    let r := specRead s n
    r.2.1 = s.cursor ∧ r.1.cursor = s.cursor + r.2.2 ∧ r.2.1 + r.2.2 ≤ s.count ∧
    (n < 0 → r.2.2 = s.count - s.cursor) ∧ (0 ≤ n → r.2.2 = min n.toNat (s.count - s.cursor)) ∧
    (s.cursor = s.count → r.2.2 = 0) := by
  unfold specRead
  by_cases hn : n < 0
  · simp [hn]; omega
  · simp [hn]; omega

/-- a refused seek leaves the cursor where it was; an accepted one moves it to the target -/
theorem C05_seek (s : Spec) (pos whence : Int) :
    let r := specStep s (.seek pos whence)
    (r.2 = .indexError ∨ r.2 = .valueError → r.1 = s) ∧
    (∀ c, r.2 = .cursor c → 0 ≤ c ∧ c < s.count ∧ r.1.cursor = c.toNat) := by
  unfold specStep
  by_cases hw : whence = 0 ∨ whence = 1 ∨ whence = 2
  · simp only [hw, if_true]
    generalize (if whence = 0 then pos else if whence = 1 then (s.cursor : Int) + pos else (s.count : Int) + pos) = t
    by_cases ht : 0 ≤ t ∧ t < s.count
    · simp only [ht, and_self, if_true]
      refine ⟨?_, ?_⟩
      · intro h; rcases h with h | h <;> cases h
      · intro c hc; injection hc with hc; subst hc; exact ⟨ht.1, ht.2, rfl⟩
    · simp only [ht, if_false]
      exact ⟨by intro _; first | rfl | trivial, by intro c hc; cases hc⟩
  · simp only [hw, if_false]
    exact ⟨by intro _; first | rfl | trivial, by intro c hc; cases hc⟩

theorem specStep_read (s : Spec) (n : Int) :
    specStep s (.read n) = ((specRead s n).1, .slice (specRead s n).2.1 (specRead s n).2.2) := rfl
theorem specStep_readAll (s : Spec) :
    specStep s .readAll = ((specRead s (-1)).1, .slice (specRead s (-1)).2.1 (specRead s (-1)).2.2) := rfl
theorem specStep_next (s : Spec) (k : Int) :
    specStep s (.next k) = if (specRead s k).2.2 = 0 then ((specRead s k).1, .stop)
      else ((specRead s k).1, .slice (specRead s k).2.1 (specRead s k).2.2) := rfl

/-- no call ever returns records beyond the header's point count -/
theorem C05_bound (s : Spec) (hs : s.cursor ≤ s.count) (ops : List ROp) :
    (specRun s ops).1.cursor ≤ s.count ∧ (specRun s ops).1.count = s.count ∧
    ∀ o ∈ (specRun s ops).2, ∀ a l, o = .slice a l → a + l ≤ s.count := by
  induction ops generalizing s with
  | nil => exact ⟨hs, rfl, by intro o ho; cases ho⟩
  | cons op ops ih =>
    have hstep : (specStep s op).1.cursor ≤ s.count ∧ (specStep s op).1.count = s.count ∧
        ∀ a l, (specStep s op).2 = .slice a l → a + l ≤ s.count := by
      have hr : ∀ n : Int, (specRead s n).1.cursor ≤ s.count ∧ (specRead s n).1.count = s.count ∧
          (specRead s n).2.1 + (specRead s n).2.2 ≤ s.count := by
        intro n
        have := C05_read s hs n
        simp only at this
        obtain ⟨t1, t2, t3, _⟩ := this
        exact ⟨by omega, rfl, t3⟩
      cases op with
      | read n =>
        obtain ⟨a1, a2, a3⟩ := hr n
        rw [specStep_read]
        exact ⟨a1, a2, by intro a l h; simp only [ROut.slice.injEq] at h; obtain ⟨h1, h2⟩ := h; omega⟩
      | readAll =>
        obtain ⟨a1, a2, a3⟩ := hr (-1)
        rw [specStep_readAll]
        exact ⟨a1, a2, by intro a l h; simp only [ROut.slice.injEq] at h; obtain ⟨h1, h2⟩ := h; omega⟩
      | next k =>
        obtain ⟨a1, a2, a3⟩ := hr k
        rw [specStep_next]
        by_cases hz : (specRead s k).2.2 = 0
        · simp only [hz, if_true]
          exact ⟨a1, a2, by intro a l h; cases h⟩
        · simp only [hz, if_false]
          exact ⟨a1, a2, by intro a l h; simp only [ROut.slice.injEq] at h; obtain ⟨h1, h2⟩ := h; omega⟩
      | seek pos whence =>
        unfold specStep
        by_cases hw : whence = 0 ∨ whence = 1 ∨ whence = 2
        · simp only [hw, if_true]
          generalize (if whence = 0 then pos else if whence = 1 then (s.cursor : Int) + pos else (s.count : Int) + pos) = t
          by_cases ht : 0 ≤ t ∧ t < s.count
          · simp only [ht, and_self, if_true]
            exact ⟨by omega, by first | rfl | trivial, by intro a l h; cases h⟩
          · simp only [ht, if_false]
            exact ⟨hs, by first | rfl | trivial, by intro a l h; cases h⟩
        · simp only [hw, if_false]
          exact ⟨hs, by first | rfl | trivial, by intro a l h; cases h⟩
    obtain ⟨b1, b2, b3⟩ := hstep
    obtain ⟨c1, c2, c3⟩ := ih (specStep s op).1 (by rw [b2]; exact b1)
    simp only [specRun]
    rw [b2] at c1 c3
    refine ⟨c1, by rw [c2, b2], ?_⟩
    intro o ho a l hal
    rcases List.mem_cons.mp ho with h | h
    · subst h; exact b3 a l hal
    · exact c3 o h a l hal

/-- **bytes**: in a file that holds `count` records of `size` bytes from `offset`, with the
    stream positioned at `offset + cursor·size`, reading `l` points (cursor + l ≤ count) returns
    exactly the bytes of records cursor … cursor+l−1 and leaves the stream at the new cursor;
    a seek puts the stream at the addressed record -/
theorem C05_bytes (pre body post : Bytes) (size count cursor l : Nat) (hb : body.length = count * size)
    (hl : cursor + l ≤ count) :
    readBytes (pre ++ body ++ post) (seekPos pre.length size cursor) size l =
      ((body.drop (cursor * size)).take (l * size), seekPos pre.length size (cursor + l)) := by
  unfold readBytes seekPos
  have hcs : cursor * size ≤ body.length := by rw [hb]; exact Nat.mul_le_mul_right _ (by omega)
  have h1 : (pre ++ body ++ post).drop (pre.length + cursor * size) = body.drop (cursor * size) ++ post := by
    rw [List.append_assoc, ← List.drop_drop, List.drop_left, List.drop_append_of_le_length hcs]
  have hlen : l * size ≤ (body.drop (cursor * size)).length := by
    rw [List.length_drop, hb, ← Nat.sub_mul]; exact Nat.mul_le_mul_right _ (by omega)
  rw [h1, List.take_append_of_le_length hlen]
  simp only [List.length_take, Nat.min_eq_left hlen, Nat.add_mul]
  congr 1
  omega

/-- non-vacuity -/
example : (run ⟨5, 0⟩ [.read 2, .seek (-1) 2, .read 9, .read 1, .seek 5 0, .next 0]).2 =
    [.slice 0 2, .cursor 4, .slice 4 1, .slice 5 0, .indexError, .stop] := by decide

/-- the reader model's `readPoints` is the arithmetic of `LasReader.read_points` as generated from the source -/
theorem readPoints_generated (s : RState) (n : Int) :
    readPoints s n = match Gen.Reader.read_points s.count s.cursor n with
      | none => (s, s.cursor.toNat, 0)
      | some (k, c) => ({ s with cursor := c }, s.cursor.toNat, k.toNat) := by
  unfold readPoints Gen.Reader.read_points
  simp only
  by_cases h1 : (s.count : Int) - s.cursor ≤ 0
  · simp [h1]
  · by_cases h2 : n < 0
    · simp [h1, h2]
    · simp [h1, h2]


end LasModel.Props.C05
