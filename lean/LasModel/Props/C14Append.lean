/-
C14 / C06 for compressed files — appending to a compressed file and reading it back, for every backend whose
compressor, decompressor and appender honour the contract.
-/
import LasModel.Props.C14File
import LasModel.Props.C06

namespace LasModel.Props.C14Append
open LasModel.Bytes LasModel.Header LasModel.Vlr LasModel.FileIO LasModel.CompressIO LasModel.Appender
open LasModel.Props.C14File LasModel.Props.C06

/-- the appender side of the backend contract: an appender opened on a compressed stream (followed by anything)
    leaves a stream from which the old points followed by the new ones come back -/
def AppendLaws (cd : Codec) : Prop :=
  ∀ (fmt extra start : Nat) (old more : List (List Rec)) (T rest : Bytes) (n : Nat),
    Gen.recLen fmt + extra < 2 ^ 16 →
    (∀ r ∈ (old ++ more).flatten, r.length = Gen.recLen fmt + extra) →
    start + 8 + old.flatten.flatten.length < 2 ^ 64 →
    n ≤ (old ++ more).flatten.length →
    cd.decompress (cd.vlrData fmt extra)
      (cd.append (cd.vlrData fmt extra) start (cd.compress (cd.vlrData fmt extra) start old ++ T) more ++ rest) n =
      ((old ++ more).flatten.take n).flatten

/-- the backend double's appender honours it -/
theorem stub_appendLaws (cs : Nat) (hcs : cs < 2 ^ 32) : AppendLaws (stubCodec cs) := by
  intro fmt extra start old more T rest n hit hlen hsz hn
  have hI := stubItem_vlrData cs fmt extra hit
  have hC := stubChunkSize_vlrData cs fmt extra hcs
  generalize hp : (stubCodec cs).vlrData fmt extra = p at hI hC
  -- the existing stream, as the appender sees it
  have hex8 : ((stubCodec cs).compress p start old ++ T).take 8 = leBytes 8 (start + 8 + old.flatten.flatten.length) := by
    show ((leBytes 8 _ ++ xorFrom _ 0 old.flatten.flatten ++ leBytes 4 0 ++ leBytes 4 _ ++ _) ++ T).take 8 = _
    simp only [List.append_assoc]
    rw [List.take_left' (leBytes_length 8 _)]
  have hexd : (((stubCodec cs).compress p start old ++ T).drop 8).take (old.flatten.flatten.length) =
      xorFrom (stubChunkSize p * stubItem p) 0 old.flatten.flatten := by
    show (((leBytes 8 _ ++ xorFrom _ 0 old.flatten.flatten ++ leBytes 4 0 ++ leBytes 4 _ ++ _) ++ T).drop 8).take _ = _
    simp only [List.append_assoc]
    rw [List.drop_left' (leBytes_length 8 _)]
    have := xorFrom_length (stubChunkSize p * stubItem p) 0 old.flatten.flatten
    rw [List.take_left' this]
  show xorFrom (stubChunkSize p * stubItem p) 0 ((((stubCodec cs).append p start ((stubCodec cs).compress p start old ++ T) more ++ rest).drop 8).take
      (n * stubItem p)) = _
  have happ : (stubCodec cs).append p start ((stubCodec cs).compress p start old ++ T) more =
      leBytes 8 (start + 8 + (old.flatten.flatten ++ more.flatten.flatten).length) ++
        (xorFrom (stubChunkSize p * stubItem p) 0 (old.flatten.flatten ++ more.flatten.flatten) ++
        (leBytes 4 0 ++ (leBytes 4 (stubTable (stubItem p) (stubChunkSize p) ((old.flatten.flatten ++ more.flatten.flatten).length + 1)
            (old.flatten.flatten ++ more.flatten.flatten).length).length ++
          (stubTable (stubItem p) (stubChunkSize p) ((old.flatten.flatten ++ more.flatten.flatten).length + 1)
            (old.flatten.flatten ++ more.flatten.flatten).length).flatMap fun e => leBytes 8 e.1 ++ leBytes 8 e.2))) := by
    show (let item := stubItem p; let c := stubChunkSize p;
          let nbytes := leNat (((stubCodec cs).compress p start old ++ T).take 8) - start - 8;
          let oldb := xorFrom (c * item) 0 ((((stubCodec cs).compress p start old ++ T).drop 8).take nbytes);
          let data := oldb ++ more.flatten.flatten;
          let table := stubTable item c (data.length + 1) data.length;
          leBytes 8 (start + 8 + data.length) ++ xorFrom (c * item) 0 data ++
            leBytes 4 0 ++ leBytes 4 table.length ++ table.flatMap fun e => leBytes 8 e.1 ++ leBytes 8 e.2) = _
    simp only
    rw [hex8, leNat_leBytes_of_lt 8 _ (by simpa using hsz)]
    have : start + 8 + old.flatten.flatten.length - start - 8 = old.flatten.flatten.length := by omega
    rw [this, hexd, xorFrom_invol]
    simp only [List.append_assoc]
  rw [happ, hI]
  simp only [List.append_assoc]
  rw [List.drop_left' (leBytes_length 8 _)]
  have hall : (old ++ more).flatten.flatten = old.flatten.flatten ++ more.flatten.flatten := by simp
  have hfl := flatten_length_uniform (old ++ more).flatten _ hlen
  have hle : n * (Gen.recLen fmt + extra) ≤
      (xorFrom (stubChunkSize p * (Gen.recLen fmt + extra)) 0 (old.flatten.flatten ++ more.flatten.flatten)).length := by
    rw [xorFrom_length, ← hall, hfl]; exact Nat.mul_le_mul_right _ hn
  rw [List.take_append_of_le_length hle, xorFrom_take, xorFrom_invol, ← hall]
  exact (take_flatten_uniform (old ++ more).flatten _ n hlen).symm

/-- reading a compressed file of the shape laspy's sessions leave: header `fin` (compressed bit, the LasZip record last
    among the VLRs), the backend's stream `body` at the point offset, the EVLR block `eb` at the recorded position,
    anything after it -/
theorem readFileC_form (cd : Codec) (fin : Hdr) (hw : fin.WF) (vb : Bytes)
    (hdec : ∀ rest, decodeVlrs false fin.vlrs.length (vb ++ rest) = (fin.vlrs, rest))
    (hhs : base fin.vMinor + fin.extraHeader.length < 2 ^ 16)
    (hoff : base fin.vMinor + fin.extraHeader.length + vb.length + fin.extraVlr.length < 2 ^ 32)
    (f : Nat) (hf : f < 64) (hbyte : fin.fmtByte = Gen.Compression.uncompressed_id_to_compressed f)
    (hfmt : Gen.formatIds.contains f = true) (hrl : Gen.recLen f ≤ fin.recLen) (hpos : 0 < fin.recLen)
    (U : List Vlr) (hU : NoLasZip U) (lz : Bytes) (hv : fin.vlrs = U ++ [lasZipVlr lz])
    (recs : List Rec) (hrec : ∀ r ∈ recs, r.length = fin.recLen) (hcount : fin.count = recs.length)
    (body : Bytes) (ev : List Vlr) (eb tail : Bytes)
    (hebdec : ∀ rest, decodeVlrs true ev.length (eb ++ rest) = (ev.map factory, rest))
    (hdecomp : cd.decompress lz (body ++ (eb ++ tail)) recs.length = recs.flatten)
    (hev : if ev.isEmpty then fin.nEvlrs = 0 else
      fin.vMinor ≥ 4 ∧ fin.nEvlrs = ev.length ∧ fin.evlrStart = (encForm fin vb).length + body.length) :
    readFileC cd (encForm fin vb ++ (body ++ (eb ++ tail))) =
      .ok { hdr := { canon fin with vlrs := U }, records := recs, evlrs := ev.map factory } := by
  obtain ⟨hd, hfo⟩ := LasModel.Appender.decode_form fin hw vb (body ++ (eb ++ tail)) hdec hhs hoff
  unfold readFileC
  rw [hd]
  simp only
  have hb : (canon fin).fmtByte = Gen.Compression.uncompressed_id_to_compressed f := hbyte
  obtain ⟨_, _, hcomp, hunc⟩ := toCompressed_mod f hf
  rw [hb, hcomp, hunc]
  simp only [not_true_eq_false, if_false, hfmt]
  have hrl' : (canon fin).recLen = fin.recLen := rfl
  have hnl : ¬ ((canon fin).recLen < Gen.recLen f) := by rw [hrl']; omega
  simp only [hnl, if_false]
  have hcount' : (canon fin).count = recs.length := hcount
  have hvlrs : popLasZip (canon fin).vlrs = U := by
    show popLasZip fin.vlrs = U
    rw [hv]; exact popLasZip_append_lz hU _
  have hevl : readEvlrs (canon fin) (encForm fin vb ++ (body ++ (eb ++ tail))) = ev.map factory := by
    unfold readEvlrs
    have c4 : (canon fin).vMinor = fin.vMinor := rfl
    rw [c4]
    by_cases hemp : ev.isEmpty = true
    · have hev0 : ev = [] := List.isEmpty_iff.mp hemp
      subst hev0
      simp only [List.isEmpty_nil, if_true] at hev
      have : (canon fin).nEvlrs = 0 := by simp [canon, hev]
      simp [this]
    · simp only [hemp, Bool.false_eq_true, if_false] at hev
      obtain ⟨h4, hn, hs⟩ := hev
      have hne : (canon fin).nEvlrs = ev.length := by simp [canon, h4, hn]
      have hse : (canon fin).evlrStart = (encForm fin vb).length + body.length := by simp [canon, h4, hs]
      have hpos' : ev.length > 0 := by
        cases hh : ev with
        | nil => simp [hh] at hemp
        | cons a l => simp
      rw [hne, hse]
      simp only [h4, hpos', and_self, if_true]
      have : (encForm fin vb ++ (body ++ (eb ++ tail))).drop ((encForm fin vb).length + body.length) = eb ++ tail := by
        rw [← List.append_assoc, ← List.length_append]; exact List.drop_left
      rw [this, hebdec tail]
  by_cases hz : (canon fin).count = 0
  · simp only [hz, if_true, hvlrs, hevl]
    have : recs = [] := by rw [hcount'] at hz; exact List.eq_nil_of_length_eq_zero hz
    rw [this]
  · simp only [hz, if_false]
    have hfind : findLasZip (canon fin).vlrs = some (lasZipVlr lz) := by
      show findLasZip fin.vlrs = _
      rw [hv]; exact findLasZip_append_lz hU _
    rw [hfind]
    simp only
    rw [hfo, List.drop_left]
    have hpay : (lasZipVlr lz).payload = lz := rfl
    rw [hpay, hcount', hdecomp]
    have hflat := flatten_length_uniform recs fin.recLen hrec
    rw [hrl']
    simp only [hflat, ne_eq, not_true_eq_false, if_false, hvlrs, hevl]
    have := splitRecs_flatten recs fin.recLen hrec []
    simp only [List.append_nil] at this
    rw [this]

theorem goC_form {F} (o : FOps F) (h : Hdr) (s : AC F)
    (hf : fmtOf s.hdr = fmtOf h) (hr : s.hdr.recLen = h.recLen) (hm : s.hdr.vMinor = h.vMinor)
    (Bs : List (List Rec)) (hcap : s.stats.count + Bs.flatten.length ≤ maxPointCount h.vMinor) :
    appendSessionC.go o s (Bs.map (mkChunk h)) =
      .ok { s with stats := foldStats o (fmtOf h) s.stats Bs, chunks := s.chunks ++ nonEmpty Bs } := by
  induction Bs generalizing s with
  | nil => simp [appendSessionC.go, foldStats, nonEmpty]
  | cons c cs ih =>
    simp only [List.map_cons, appendSessionC.go]
    have hcapc : ¬ (maxPointCount h.vMinor - s.stats.count < c.length) := by
      simp only [List.flatten_cons, List.length_append] at hcap; omega
    by_cases he : c.isEmpty = true
    · have hc0 : c = [] := List.isEmpty_iff.mp he
      subst hc0
      have : appendPointsC o s (mkChunk h []) = .ok s := by
        unfold appendPointsC mkChunk
        simp [hf, hr]
      rw [this]
      simp only
      rw [ih s hf hr hm (by simpa using hcap)]
      simp [foldStats, nonEmpty]
    · have hne : ¬ c = [] := fun hc => he (by simp [hc])
      have : appendPointsC o s (mkChunk h c) =
          .ok { s with stats := grow o (fmtOf h) s.stats c, chunks := s.chunks ++ [c] } := by
        unfold appendPointsC mkChunk
        simp only [hf, hr, hm, ne_eq, not_true_eq_false, or_self, if_false, hcapc, he, Bool.false_eq_true]
      rw [this]
      simp only
      rw [ih { s with stats := grow o (fmtOf h) s.stats c, chunks := s.chunks ++ [c] } hf hr hm
            (by simp only [grow, List.flatten_cons, List.length_append] at hcap ⊢; omega)]
      simp [foldStats, hne, nonEmpty, List.filter_cons, he, List.append_assoc]

theorem sameEnc_evlrStart (a b : Hdr) (e : SameEnc a b) (es : Nat) :
    SameEnc { a with evlrStart := es } { b with evlrStart := es } :=
  { fsid := e.fsid, ge := e.ge, guid := e.guid, major := e.major, minor := e.minor, sys := e.sys, soft := e.soft,
    doy := e.doy, year := e.year, fmt := e.fmt, recLen := e.recLen, nvlrs := e.nvlrs, xh := e.xh, xv := e.xv,
    count := e.count, doubles := e.doubles, wave := e.wave,
    v14 := fun h4 => ⟨rfl, (e.v14 h4).2.1, (e.v14 h4).2.2⟩, legacy := e.legacy }

/-- the header of a compressed session differs from the writer-model header over the same (compressed) base header only
    in the EVLR position -/
theorem finalHdrC_eq {F} (cd : Codec) (o : FOps F) (h : Hdr) (As : List (List Rec)) (ev : List Vlr) :
    finalHdrC cd o h As ev = { finalHdr o (compHdr cd h) As ev with evlrStart := (finalHdrC cd o h As ev).evlrStart } := by
  unfold finalHdrC finalHdr finalStats withStats
  rw [fmtOf_compHdr]

theorem canon_evlrStart (x : Hdr) (e : Nat) :
    canon { x with evlrStart := e } = { canon x with evlrStart := if x.vMinor ≥ 4 then e else 0 } := by
  unfold canon; rfl

theorem statsOfHdr_evlrStart {F} (o : FOps F) (x : Hdr) (e : Nat) :
    statsOfHdr o { x with evlrStart := e } = statsOfHdr o x := rfl

theorem withStats_evlrStart {F} (o : FOps F) (x : Hdr) (e : Nat) (s : Stats F) (es ne : Nat) :
    withStats o { x with evlrStart := e } s es ne = withStats o x s es ne := rfl

/-- the header the compressed appender writes at close is encoded like the header of a compressed session over all the
    points with the EVLR block where the appender put it, and that header is in the legal domain -/
theorem appendC_header {F} (cd : Codec) (o : FOps F) (good : F → Prop) (L : Laws o good) (gz : good o.zero)
    (hob : BitsRoundTrip o good) (h : Hdr) (As Bs : List (List Rec)) (ev : List Vlr)
    (okA : SessionOKC cd o h As ev) (cap : (As ++ Bs).flatten.length ≤ maxPointCount h.vMinor) (es : Nat) (hes : es < 2 ^ 64) :
    let fin0 := finalHdrC cd o h As ev
    let B := withStats o (compHdr cd h) (finalStats o h (As ++ Bs)) es (if ev.isEmpty then 0 else ev.length)
    B.WF ∧
    SameEnc (withStats o (canon fin0) (foldStats o (fmtOf h) (statsOfHdr o (canon fin0)) Bs) es (canon fin0).nEvlrs) B := by
  intro fin0 B
  have hwC := compHdr_wf cd h okA.wf okA.lz okA.nvlrs
  have hfC := fmtOf_compHdr cd h
  have hne : (if ev.isEmpty then 0 else ev.length) < 2 ^ 32 := by
    split
    · decide
    · exact okA.evCount
  have hB : B = withStats o (compHdr cd h) (foldStats o (fmtOf (compHdr cd h)) (resetStats o) (As ++ Bs)) es
      (if ev.isEmpty then 0 else ev.length) := by
    show withStats o (compHdr cd h) (finalStats o h (As ++ Bs)) es _ = _
    unfold finalStats; rw [hfC]
  refine ⟨?_, ?_⟩
  · rw [hB]
    exact withStats_wf o okA.bits (compHdr cd h) hwC (As ++ Bs) es _ cap hes hne
  · have hd12 : (compHdr cd h).doubles.length = 12 := okA.wf.doubles.1
    have hse := append_sameEnc o good L gz hob (compHdr cd h) hd12 As Bs ev
      (finalHdr o (compHdr cd h) (As ++ Bs) ev).evlrStart (fun _ => rfl)
    have hse' := sameEnc_evlrStart _ _ hse es
    have e0 : fin0 = { finalHdr o (compHdr cd h) As ev with evlrStart := (finalHdrC cd o h As ev).evlrStart } :=
      finalHdrC_eq cd o h As ev
    have eL : withStats o (canon fin0) (foldStats o (fmtOf h) (statsOfHdr o (canon fin0)) Bs) es (canon fin0).nEvlrs =
        { withStats o (canon (finalHdr o (compHdr cd h) As ev))
            (foldStats o (fmtOf (compHdr cd h)) (statsOfHdr o (canon (finalHdr o (compHdr cd h) As ev))) Bs)
            (finalHdr o (compHdr cd h) (As ++ Bs) ev).evlrStart (canon (finalHdr o (compHdr cd h) As ev)).nEvlrs
          with evlrStart := es } := by
      rw [e0, canon_evlrStart, hfC]
      rfl
    have eR : B = { finalHdr o (compHdr cd h) (As ++ Bs) ev with evlrStart := es } := by
      rw [hB]; rfl
    rw [eL, eR]
    exact hse'

/-- **appending to a compressed file, for every backend honouring the contract**: a compressed file written by a session
    (any chunking `As`, any EVLRs), then an append session adding the chunks `Bs` (empty ones included), then read back:
    the records are `As` followed by `Bs`, byte-identical; the EVLRs are the same; the header carries the statistics of
    all the points (those of writing `As ++ Bs` at once), the compressed bit and the caller's VLRs. -/
theorem C14_append_roundtrip {F} (cd : Codec) (hal : AppendLaws cd) (o : FOps F) (good : F → Prop) (L : Laws o good)
    (gz : good o.zero) (hob : BitsRoundTrip o good) (h : Hdr) (As Bs : List (List Rec)) (ev : List Vlr)
    (okA : SessionOKC cd o h As ev) (cap : (As ++ Bs).flatten.length ≤ maxPointCount h.vMinor)
    (img : ImageOK h (As ++ Bs)) (none : NoLasZip h.vlrs) (hevn : ∀ v ∈ ev, factory v = v)
    (hsz : headerLenOf (compHdr cd h) + 8 + As.flatten.flatten.length < 2 ^ 64)
    (hfs : ∀ T, headerLenOf (compHdr cd h) +
      (cd.append (lzOf cd h) (headerLenOf (compHdr cd h)) (streamOf cd h As ++ T) (nonEmpty Bs)).length < 2 ^ 64) :
    ∃ file0 file1 es, sessionC cd o h (sessionOps h As ev) = .ok file0 ∧
      appendSessionC cd o file0 (Bs.map (mkChunk h)) = .ok file1 ∧
      readFileC cd file1 = .ok
        { hdr := { canon (withStats o (compHdr cd h) (finalStats o h (As ++ Bs)) es (if ev.isEmpty then 0 else ev.length))
                   with vlrs := h.vlrs },
          records := (As ++ Bs).flatten, evlrs := ev.map factory } := by
  have hpop := popLasZip_none none
  obtain ⟨vb, eb, hvb, heb, hHLF, hdec, hebdec, hwF0, hs0⟩ := sessionC_form cd o h As ev okA
  have hfC := fmtOf_compHdr cd h
  have hevmap : ev.map factory = ev := by
    have : ∀ l : List Vlr, (∀ v ∈ l, factory v = v) → l.map factory = l := by
      intro l hl
      induction l with
      | nil => rfl
      | cons a l ih => simp [hl a (by simp), ih (fun v hv => hl v (by simp [hv]))]
    exact this ev hevn
  -- the original file, decoded
  have hvl0 := encForm_length (finalHdrC cd o h As ev) hwF0 vb
  have hoff0 : base (finalHdrC cd o h As ev).vMinor + (finalHdrC cd o h As ev).extraHeader.length + vb.length +
      (finalHdrC cd o h As ev).extraVlr.length < 2 ^ 32 := by rw [← hvl0, hHLF]; exact okA.offset
  obtain ⟨hd0, hfo0⟩ := LasModel.Appender.decode_form (finalHdrC cd o h As ev) hwF0 vb (streamOf cd h As ++ eb)
    (by intro rest; exact hdec rest) okA.hsize hoff0
  generalize hoffd : headerLenOf (compHdr cd h) = off at *
  -- facts about the decoded header
  have c_fmt : fmtOf (canon (finalHdrC cd o h As ev)) = fmtOf h := hfC
  have c_rl : (canon (finalHdrC cd o h As ev)).recLen = h.recLen := rfl
  have c_mn : (canon (finalHdrC cd o h As ev)).vMinor = h.vMinor := rfl
  have c_vl : (canon (finalHdrC cd o h As ev)).vlrs = h.vlrs ++ [lasZipVlr (lzOf cd h)] := by
    show (compHdr cd h).vlrs = _
    simp [compHdr, hpop]
  have hemp_cases : (ev.isEmpty = true ∧ ev = []) ∨ (¬ ev.isEmpty = true ∧ h.vMinor ≥ 4 ∧ ev.length > 0) := by
    by_cases hemp : ev.isEmpty = true
    · exact Or.inl ⟨hemp, List.isEmpty_iff.mp hemp⟩
    · refine Or.inr ⟨hemp, ?_, ?_⟩
      · by_cases h4 : h.vMinor ≥ 4
        · exact h4
        · have := okA.evVersion (by omega); subst this; simp at hemp
      · cases hh : ev with
        | nil => simp [hh] at hemp
        | cons a l => simp
  -- open
  have hopen : openAppendC o (encForm (finalHdrC cd o h As ev) vb ++ (streamOf cd h As ++ eb)) =
      .ok { hdr := canon (finalHdrC cd o h As ev), stats := statsOfHdr o (canon (finalHdrC cd o h As ev)),
            lz := lzOf cd h, file := encForm (finalHdrC cd o h As ev) vb ++ (streamOf cd h As ++ eb), offset := off,
            chunks := [], evlrs := ev } := by
    unfold openAppendC
    rw [hd0, hfo0, hHLF]
    simp only
    rw [c_fmt, c_rl, c_mn, c_vl, findLasZip_append_lz none]
    have hnl : ¬ (h.recLen < Gen.recLen (fmtOf h)) := by have := img.recLen; omega
    simp only [img.fmt, not_true_eq_false, if_false, hnl]
    rcases hemp_cases with ⟨hemp, hev0⟩ | ⟨hemp, h4, hpos⟩
    · subst hev0
      have hne : (canon (finalHdrC cd o h As [])).nEvlrs = 0 := by simp [canon, finalHdrC, withStats]
      simp [hne, lasZipVlr]
    · have hne : (canon (finalHdrC cd o h As ev)).nEvlrs = ev.length := by
        simp [canon, finalHdrC, withStats, hemp, compHdr, h4]
      have hse : (canon (finalHdrC cd o h As ev)).evlrStart = off + (streamOf cd h As).length := by
        rw [← hoffd]; simp [canon, finalHdrC, withStats, hemp, compHdr, h4]
      rw [hne, hse]
      simp only [h4, hpos, and_self, if_true]
      have hdrop : (encForm (finalHdrC cd o h As ev) vb ++ (streamOf cd h As ++ eb)).drop (off + (streamOf cd h As).length) = eb := by
        rw [← hHLF, ← List.append_assoc, ← List.length_append]; exact List.drop_left
      rw [hdrop]
      have := hebdec []
      simp only [List.append_nil] at this
      rw [this, hevmap]
      simp [lasZipVlr]
  rw [List.append_assoc] at hs0
  generalize hbody : cd.append (lzOf cd h) off (streamOf cd h As ++ eb) (nonEmpty Bs) = body
  have hasEv_iff : (h.vMinor ≥ 4 ∧ ¬ ev.isEmpty = true) ↔ ¬ ev.isEmpty = true := by
    constructor
    · exact fun hh => hh.2
    · intro hh
      rcases hemp_cases with ⟨he, _⟩ | ⟨_, h4, _⟩
      · exact absurd he hh
      · exact ⟨h4, hh⟩
  -- where the EVLR block ends up
  generalize hesd : (if ev.isEmpty then (canon (finalHdrC cd o h As ev)).evlrStart else off + body.length) = es
  have hes64 : es < 2 ^ 64 := by
    rw [← hesd]
    split
    · have := (canon_wf _ hwF0).evlr.1; exact this
    · have := hfs eb; rw [hbody] at this; exact this
  obtain ⟨hwB, hse⟩ := appendC_header cd o good L gz hob h As Bs ev okA cap es hes64
  generalize hB : withStats o (compHdr cd h) (finalStats o h (As ++ Bs)) es (if ev.isEmpty then 0 else ev.length) = B at *
  refine ⟨_, encForm B vb ++ (body ++ (eb ++ ((streamOf cd h As ++ eb).drop body.length).drop eb.length)), es, hs0, ?_, ?_⟩
  · -- the append session
    unfold appendSessionC
    rw [hopen]
    simp only
    have hcap0 : (statsOfHdr o (canon (finalHdrC cd o h As ev))).count + Bs.flatten.length ≤ maxPointCount h.vMinor := by
      have hd12 : (compHdr cd h).doubles.length = 12 := okA.wf.doubles.1
      have c0 := (statsOfHdr_final o good L gz hob (compHdr cd h) hd12 As ev).1
      have e0 := finalHdrC_eq cd o h As ev
      have : statsOfHdr o (canon (finalHdrC cd o h As ev)) = statsOfHdr o (canon (finalHdr o (compHdr cd h) As ev)) := by
        rw [e0, canon_evlrStart]; rfl
      rw [this, c0]
      have : (finalStats o (compHdr cd h) As).count = As.flatten.length := by
        unfold finalStats; rw [foldStats_count]; simp [resetStats]
      rw [this]
      simpa [List.flatten_append, List.length_append] using cap
    rw [goC_form o h _ c_fmt c_rl c_mn Bs hcap0]
    simp only [List.nil_append]
    unfold closeAppendC
    simp only
    rw [List.drop_left' hHLF, hbody, c_mn]
    have hencv : encodeVlrs true ev = .ok eb := heb
    rw [hencv]
    simp only
    -- the header
    have hne0 : (canon (finalHdrC cd o h As ev)).nEvlrs = (canon (finalHdrC cd o h As ev)).nEvlrs := rfl
    have hesv : (if h.vMinor ≥ 4 ∧ ¬ ev.isEmpty = true then off + body.length else (canon (finalHdrC cd o h As ev)).evlrStart) = es := by
      rw [← hesd]
      by_cases hemp : ev.isEmpty = true
      · have : ¬ (h.vMinor ≥ 4 ∧ ¬ ev.isEmpty = true) := fun hh => hh.2 hemp
        simp [this, hemp]
      · have : h.vMinor ≥ 4 ∧ ¬ ev.isEmpty = true := hasEv_iff.mpr hemp
        simp [this, hemp]
    have hBv : B.vlrs = (compHdr cd h).vlrs := by rw [← hB]; rfl
    have hvq : (withStats o (canon (finalHdrC cd o h As ev))
        (foldStats o (fmtOf h) (statsOfHdr o (canon (finalHdrC cd o h As ev))) Bs) es
        (canon (finalHdrC cd o h As ev)).nEvlrs).vlrs = B.vlrs := by
      rw [hBv]; rfl
    rw [hesv, encodeHdr_congr _ _ hse hvq]
    obtain ⟨vb2, hvb2, _, _, henc2⟩ := encodeHdr_eq B hwB true off
    have hv2 : vb2 = vb := by
      have : encodeVlrs false (compHdr cd h).vlrs = .ok vb2 := by rw [hBv] at hvb2; exact hvb2
      rw [hvb] at this; injection this with e; exact e.symm
    rw [hv2] at henc2
    have hlenB := encForm_length B hwB vb
    have hBm : B.vMinor = (finalHdrC cd o h As ev).vMinor ∧ B.extraHeader = (finalHdrC cd o h As ev).extraHeader ∧
        B.extraVlr = (finalHdrC cd o h As ev).extraVlr := by rw [← hB]; exact ⟨rfl, rfl, rfl⟩
    have hlenB' : (encForm B vb).length = off := by
      rw [hlenB, ← hHLF, hvl0, hBm.1, hBm.2.1, hBm.2.2]
    have hsame : (base B.vMinor + B.extraHeader.length + vb.length + B.extraVlr.length != off) = false := by
      rw [← hlenB, hlenB']; simp
    simp only [hsame, Bool.and_false, Bool.false_eq_true, if_false] at henc2
    rw [henc2]
    simp only
    -- the stores
    have hst1 : writeAt (encForm (finalHdrC cd o h As ev) vb ++ (streamOf cd h As ++ eb)) off body =
        encForm (finalHdrC cd o h As ev) vb ++ body ++ (streamOf cd h As ++ eb).drop body.length := by
      rw [← hHLF]; exact writeAt_append _ _ _
    rw [hst1]
    have hst2 : (if h.vMinor ≥ 4 ∧ ¬ ev.isEmpty = true then
          writeAt (encForm (finalHdrC cd o h As ev) vb ++ body ++ (streamOf cd h As ++ eb).drop body.length) (off + body.length) eb
        else encForm (finalHdrC cd o h As ev) vb ++ body ++ (streamOf cd h As ++ eb).drop body.length) =
        encForm (finalHdrC cd o h As ev) vb ++ body ++ eb ++ ((streamOf cd h As ++ eb).drop body.length).drop eb.length := by
      have hw2 := writeAt_append (encForm (finalHdrC cd o h As ev) vb ++ body) ((streamOf cd h As ++ eb).drop body.length) eb
      rw [List.length_append, hHLF] at hw2
      by_cases hemp : ev.isEmpty = true
      · have hn : ¬ (h.vMinor ≥ 4 ∧ ¬ ev.isEmpty = true) := fun hh => hh.2 hemp
        have hev0 : ev = [] := List.isEmpty_iff.mp hemp
        have hebn : eb = [] := by subst hev0; simp [encodeVlrs, pure, Except.pure] at heb; exact heb
        rw [if_neg hn, hebn]
        simp
      · have hy : h.vMinor ≥ 4 ∧ ¬ ev.isEmpty = true := hasEv_iff.mpr hemp
        simp only [hy, and_self, if_true]
        exact hw2
    rw [hst2]
    have hz := writeAt_zero (encForm (finalHdrC cd o h As ev) vb) (encForm B vb)
      (body ++ (eb ++ ((streamOf cd h As ++ eb).drop body.length).drop eb.length)) (by rw [hlenB', hHLF])
    rw [List.append_assoc, List.append_assoc, hz]
  · -- reading the result
    have hBv : B.vlrs = (compHdr cd h).vlrs := by rw [← hB]; rfl
    have hBm : B.vMinor = h.vMinor ∧ B.extraHeader = h.extraHeader ∧ B.extraVlr = h.extraVlr ∧ B.recLen = h.recLen ∧
        B.fmtByte = Gen.Compression.uncompressed_id_to_compressed (fmtOf h) ∧
        B.nEvlrs = (if ev.isEmpty then 0 else ev.length) ∧ B.evlrStart = es := by
      rw [← hB]; exact ⟨rfl, rfl, rfl, rfl, rfl, rfl, rfl⟩
    have hlenB' : (encForm B vb).length = off := by
      rw [encForm_length B hwB vb, ← hHLF, hvl0, hBm.1, hBm.2.1, hBm.2.2.1]; rfl
    have hcountB : B.count = (As ++ Bs).flatten.length := by
      rw [← hB]
      show (finalStats o h (As ++ Bs)).count = _
      unfold finalStats; rw [foldStats_count]; simp [resetStats]
    have hstream : streamOf cd h As = cd.compress (lzOf cd h) off (nonEmpty As) := by rw [← hoffd]; rfl
    have hlen : ∀ r ∈ (nonEmpty As ++ nonEmpty Bs).flatten, r.length = Gen.recLen (fmtOf h) + (h.recLen - Gen.recLen (fmtOf h)) := by
      intro r hr
      have : r ∈ (As ++ Bs).flatten := by
        simp only [List.flatten_append, List.mem_append, nonEmpty_flatten] at hr ⊢; exact hr
      have := img.recs r this
      have := img.recLen
      omega
    have hit : Gen.recLen (fmtOf h) + (h.recLen - Gen.recLen (fmtOf h)) < 2 ^ 16 := by
      have := img.recLen; have := okA.wf.recLen; omega
    have hflAB : (nonEmpty As ++ nonEmpty Bs).flatten = (As ++ Bs).flatten := by
      simp [List.flatten_append, nonEmpty_flatten]
    have hdecomp := hal (fmtOf h) (h.recLen - Gen.recLen (fmtOf h)) off (nonEmpty As) (nonEmpty Bs) eb
      (eb ++ ((streamOf cd h As ++ eb).drop body.length).drop eb.length) (As ++ Bs).flatten.length hit hlen
      (by rw [nonEmpty_flatten]; exact hsz) (by rw [hflAB]; exact Nat.le_refl _)
    have hlz : cd.vlrData (fmtOf h) (h.recLen - Gen.recLen (fmtOf h)) = lzOf cd h := rfl
    rw [hlz, ← hstream, hbody, hflAB, List.take_length] at hdecomp
    have := readFileC_form cd B hwB vb (by intro rest; rw [hBv]; exact hdec rest)
      (by rw [hBm.1, hBm.2.1]; exact okA.hsize)
      (by rw [← encForm_length B hwB vb, hlenB', ← hoffd]; exact okA.offset)
      (fmtOf h) (fmtOf_lt h) hBm.2.2.2.2.1 img.fmt (by rw [hBm.2.2.2.1]; exact img.recLen) (by rw [hBm.2.2.2.1]; exact img.pos)
      h.vlrs none (lzOf cd h) (by rw [hBv]; simp [compHdr, hpop])
      (As ++ Bs).flatten (by intro r hr; rw [hBm.2.2.2.1]; exact img.recs r hr) hcountB
      body ev eb (((streamOf cd h As ++ eb).drop body.length).drop eb.length) hebdec hdecomp
      (by
        by_cases hemp : ev.isEmpty = true
        · simp only [hemp, if_true]; rw [hBm.2.2.2.2.2.1]; simp [hemp]
        · simp only [hemp, Bool.false_eq_true, if_false]
          refine ⟨by rw [hBm.1]; exact (hasEv_iff.mpr hemp).1, by rw [hBm.2.2.2.2.2.1]; simp [hemp], ?_⟩
          rw [hBm.2.2.2.2.2.2, hlenB', ← hesd]; simp [hemp])
    subst hB
    exact this

/-! ### non-vacuity -/

theorem stubTable_length_le (item cs fuel len : Nat) : (stubTable item cs fuel len).length ≤ fuel := by
  induction fuel generalizing len with
  | zero => simp [stubTable]
  | succ f ih =>
    unfold stubTable
    split
    · simp
    · split
      · simp only [List.length_cons]; have := ih (len - cs * item); omega
      · simp

theorem flatMap_len16 (tb : List (Nat × Nat)) :
    (tb.flatMap fun e => leBytes 8 e.1 ++ leBytes 8 e.2).length = 16 * tb.length := by
  induction tb with
  | nil => rfl
  | cons e es ih =>
    simp only [List.flatMap_cons, List.length_append, leBytes_length, ih, List.length_cons]; omega

/-- the size of what the double's appender leaves is bounded by the stream it was opened on and what is appended,
    whatever follows that stream -/
theorem stub_append_length (cs : Nat) (p : Bytes) (start : Nat) (existing : Bytes) (more : List (List Rec)) :
    ((stubCodec cs).append p start existing more).length ≤
      24 + 17 * ((leNat (existing.take 8) - start - 8) + more.flatten.flatten.length + 1) := by
  show (leBytes 8 _ ++ xorFrom _ 0 _ ++ leBytes 4 0 ++ leBytes 4 _ ++ _).length ≤ _
  generalize hn : leNat (existing.take 8) - start - 8 = nb
  simp only [List.length_append, leBytes_length, xorFrom_length, flatMap_len16]
  have h1 : ((existing.drop 8).take nb).length ≤ nb := by simp [List.length_take]; omega
  have h2 := stubTable_length_le (stubItem p) (stubChunkSize p)
    (((existing.drop 8).take nb).length + more.flatten.flatten.length + 1)
    (((existing.drop 8).take nb).length + more.flatten.flatten.length)
  omega

theorem laws2 : Laws intOps2 good2 :=
  { good_render := by intro a x; simp only [intOps2, clamp, good2]; omega,
    good_lowest := by simp only [intOps2, good2]; omega,
    good_highest := by simp only [intOps2, good2]; omega,
    lt_iff := by intro a b; simp [intOps2],
    trans := by intro a b c _ _ _ h1 h2; simp [intOps2] at *; omega,
    negtrans := by intro a b c _ _ _ h1 h2; simp [intOps2] at *; omega,
    mono := by intro a x y hxy; simp only [intOps2, clamp, gt_iff_lt, decide_eq_false_iff_not]; omega,
    tie_eq := by intro a x y h1 h2; simp only [intOps2, clamp, gt_iff_lt, decide_eq_false_iff_not] at *; omega }

theorem bitsOK2 : BitsOK intOps2 := by
  constructor
  intro x
  simp only [intOps2]
  have h1 := Int.emod_lt_of_pos (x + 2 ^ 63) (show (0 : Int) < ((2 ^ 64 : Nat) : Int) by decide)
  have h2 := Int.emod_nonneg (x + 2 ^ 63) (show ((2 ^ 64 : Nat) : Int) ≠ 0 by decide)
  omega

theorem bitsRT2 : BitsRoundTrip intOps2 good2 := by
  intro x hx
  simp only [intOps2, good2] at *
  have : (x + 2 ^ 63) % ((2 ^ 64 : Nat) : Int) = x + 2 ^ 63 := Int.emod_eq_of_lt (by omega) (by omega)
  rw [this]
  omega

/-- the hypotheses of `C14_append_roundtrip` are met by a concrete history on the backend double (chunk size 2): three records
    written compressed in chunks of 2, 0 and 1, then one more record appended -/
example : ∃ file0 file1 es, sessionC (stubCodec 2) intOps2 exHdr (sessionOps exHdr exChunks []) = .ok file0 ∧
    appendSessionC (stubCodec 2) intOps2 file0 ([[List.replicate 20 9]].map (mkChunk exHdr)) = .ok file1 ∧
    ∃ r, readFileC (stubCodec 2) file1 = .ok r ∧ r.records = (exChunks ++ [[List.replicate 20 9]]).flatten ∧ (es : Nat) = es := by
  have okA : SessionOKC (stubCodec 2) intOps2 exHdr exChunks [] :=
    { wf := exHdr_wf
      bits := bitsOK2
      compat := ⟨(2, 0), rfl⟩
      lz := by decide +kernel
      nvlrs := by decide
      hsize := by decide
      offset := by decide +kernel
      cap := by decide
      evWF := by intro v hv; cases hv
      evVersion := fun _ => rfl
      evCount := by decide
      fileSize := by decide +kernel }
  have img : ImageOK exHdr (exChunks ++ [[List.replicate 20 9]]) :=
    { fmt := by decide +kernel
      recLen := by decide +kernel
      pos := by decide
      recs := by decide }
  obtain ⟨file0, file1, es, h0, h1, hr⟩ := C14_append_roundtrip (stubCodec 2) (stub_appendLaws 2 (by decide)) intOps2 good2 laws2
    (by simp only [intOps2, good2]; omega) bitsRT2 exHdr exChunks [[List.replicate 20 9]] [] okA (by decide) img
    (by intro v hv; cases hv) (by intro v hv; cases hv) (by decide +kernel)
    (by
      intro T
      have hb := stub_append_length 2 (lzOf (stubCodec 2) exHdr) (headerLenOf (compHdr (stubCodec 2) exHdr))
        (streamOf (stubCodec 2) exHdr exChunks ++ T) (nonEmpty [[List.replicate 20 9]])
      have h8 : (streamOf (stubCodec 2) exHdr exChunks ++ T).take 8 = (streamOf (stubCodec 2) exHdr exChunks).take 8 := by
        apply List.take_append_of_le_length
        decide +kernel
      rw [h8] at hb
      have hc : 24 + 17 * ((leNat ((streamOf (stubCodec 2) exHdr exChunks).take 8) - headerLenOf (compHdr (stubCodec 2) exHdr) - 8) +
          (nonEmpty [[List.replicate 20 9]]).flatten.flatten.length + 1) < 2 ^ 63 := by decide +kernel
      have ho : headerLenOf (compHdr (stubCodec 2) exHdr) < 2 ^ 63 := by decide +kernel
      omega)
  exact ⟨file0, file1, es, h0, h1, _, hr, rfl, rfl⟩

end LasModel.Props.C14Append
