/-
C20 — global-encoding flags are independent booleans.

All definitions under `Gen.GE` are *generated* from the AST of
`laspy.header.GlobalEncoding` on every run; the theorems below are about those
generated definitions, for every natural number `v` (a fortiori all 65,536
sixteen-bit values), every flag and both target values.
-/
import LasModel.Gen.Funs
import LasModel.Lemmas.Bits

namespace LasModel.Props.C20
open Gen.GE LasModel.Bits

inductive Flag | gps | wfi | wfe | syn | wkt
deriving DecidableEq, Repr

/-- bit position of each flag (ASPRS LAS 1.4 R15, table 4) -/
def Flag.bit : Flag → Nat
  | .gps => 0 | .wfi => 1 | .wfe => 2 | .syn => 3 | .wkt => 4

/-- the flag read through laspy's generated getter -/
def get : Flag → Nat → Bool
  | .gps, v => get_gps_time_type v != 0
  | .wfi, v => get_waveform_data_packets_internal v
  | .wfe, v => get_waveform_data_packets_external v
  | .syn, v => get_synthetic_return_numbers v
  | .wkt, v => get_wkt v

/-- the flag assigned through laspy's generated setter
    (`gps_time_type` takes the enum value 0 / 1) -/
def set : Flag → Bool → Nat → Nat
  | .gps, b, v => set_gps_time_type v b.toNat
  | .wfi, b, v => set_waveform_data_packets_internal v b
  | .wfe, b, v => set_waveform_data_packets_external v b
  | .syn, b, v => set_synthetic_return_numbers v b
  | .wkt, b, v => set_wkt v b

/-- the generated masks are the single bits the specification assigns -/
theorem masks_spec :
    GPS_TIME_TYPE_MASK = 2 ^ 0 ∧ WAVEFORM_INTERNAL_MASK = 2 ^ 1 ∧
    WAVEFORM_EXTERNAL_MASK = 2 ^ 2 ∧ SYNTHETIC_RETURN_NUMBERS_MASK = 2 ^ 3 ∧
    WKT_MASK = 2 ^ 4 := by decide

private theorem m0 : GPS_TIME_TYPE_MASK = 2 ^ 0 := masks_spec.1
private theorem m1 : WAVEFORM_INTERNAL_MASK = 2 ^ 1 := masks_spec.2.1
private theorem m2 : WAVEFORM_EXTERNAL_MASK = 2 ^ 2 := masks_spec.2.2.1
private theorem m3 : SYNTHETIC_RETURN_NUMBERS_MASK = 2 ^ 3 := masks_spec.2.2.2.1
private theorem m4 : WKT_MASK = 2 ^ 4 := masks_spec.2.2.2.2

/-- bitwise characterisation of every setter: bit `f.bit` becomes `b`, every
    other bit keeps its value. This is the core obligation; everything else is a
    corollary. -/
theorem set_testBit (f : Flag) (b : Bool) (v i : Nat) :
    (set f b v).testBit i = if i = f.bit then b else v.testBit i := by
  by_cases h : i = f.bit <;> simp only [h, if_true, if_false] <;>
  cases f <;> cases b <;>
    simp only [set, Flag.bit, set_gps_time_type, set_waveform_data_packets_internal,
      set_waveform_data_packets_external, set_synthetic_return_numbers, set_wkt,
      _set_if_true, _set_bit, _unset_bit, Bool.toNat, cond_true, cond_false,
      if_true, Bool.false_eq_true, if_false, Nat.testBit_or,
      or_mask m0, or_mask m1, or_mask m2, or_mask m3, or_mask m4,
      clear_mask m0, clear_mask m1, clear_mask m2, clear_mask m3, clear_mask m4,
      and_mask m0, Nat.zero_testBit, Nat.testBit_one_eq_true_iff_self_eq_zero] <;>
    simp_all [Flag.bit, eq_comm]

theorem get_testBit (f : Flag) (v : Nat) : get f v = v.testBit f.bit := by
  cases f <;>
    simp only [get, Flag.bit, get_gps_time_type, get_waveform_data_packets_internal,
      get_waveform_data_packets_external, get_synthetic_return_numbers, get_wkt, id,
      and_mask_ne_zero m0, and_mask_ne_zero m1, and_mask_ne_zero m2,
      and_mask_ne_zero m3, and_mask_ne_zero m4]

/-- after setting a flag to `b` it reads back `b`, whatever its previous state -/
theorem C20_get_set (f : Flag) (b : Bool) (v : Nat) : get f (set f b v) = b := by
  rw [get_testBit, set_testBit]; simp

/-- no other bit of the field changes (other flags *and* reserved bits) -/
theorem C20_frame (f : Flag) (b : Bool) (v i : Nat) (h : i ≠ f.bit) :
    (set f b v).testBit i = v.testBit i := by
  rw [set_testBit]; simp [h]

/-- the other four flags read as before -/
theorem C20_independent (f g : Flag) (b : Bool) (v : Nat) (h : g ≠ f) :
    get g (set f b v) = get g v := by
  rw [get_testBit, get_testBit, C20_frame]
  cases f <;> cases g <;> simp_all [Flag.bit]

/-- a 16-bit field stays a 16-bit field -/
theorem C20_width (f : Flag) (b : Bool) (v : Nat) (hv : v < 2 ^ 16) :
    set f b v < 2 ^ 16 := by
  apply Nat.lt_pow_two_of_testBit
  intro i hi
  rw [set_testBit]
  have : i ≠ f.bit := by cases f <;> simp [Flag.bit] <;> omega
  simp [this]
  exact Nat.testBit_lt_two_pow (Nat.lt_of_lt_of_le hv (Nat.pow_le_pow_right (by decide) hi))

/-- histories: after any sequence of assignments each bit holds the last value
    assigned to its flag, or the original bit. -/
def run (v : Nat) (ops : List (Flag × Bool)) : Nat :=
  ops.foldl (fun s op => set op.1 op.2 s) v

def lastAssigned (i : Nat) : List (Flag × Bool) → Option Bool
  | [] => none
  | op :: rest =>
    match lastAssigned i rest with
    | some b => some b
    | none => if i = op.1.bit then some op.2 else none

theorem C20_history (ops : List (Flag × Bool)) (v i : Nat) :
    (run v ops).testBit i = (lastAssigned i ops).getD (v.testBit i) := by
  induction ops generalizing v with
  | nil => simp [run, lastAssigned]
  | cons op rest ih =>
    have := ih (set op.1 op.2 v)
    simp only [run, List.foldl_cons] at this ⊢
    rw [this, lastAssigned]
    cases h : lastAssigned i rest with
    | some b => simp
    | none =>
      simp only [Option.getD_none]
      rw [set_testBit]
      by_cases hi : i = op.1.bit <;> simp [hi]

theorem C20_history_get (ops : List (Flag × Bool)) (v : Nat) (f : Flag) :
    get f (run v ops) = (lastAssigned f.bit ops).getD (get f v) := by
  rw [get_testBit, get_testBit, C20_history]

/-- serialisation of the field: `value.to_bytes(2, "little")` / `int.from_bytes` -/
def encode (v : Nat) : List Nat := [v % 256, v / 256 % 256]
def decode : List Nat → Nat
  | [a, b] => a + 256 * b
  | _ => 0

theorem C20_roundtrip (v : Nat) (hv : v < 65536) :
    decode (encode v) = v ∧ (encode v).length = 2 := by
  simp only [encode, decode, List.length]
  refine ⟨?_, trivial⟩
  omega

/-- non-vacuity: a concrete history on a value with reserved bits set -/
example : run 0xFF00 [(.wkt, true), (.gps, true), (.wkt, false), (.wkt, false)] = 0xFF01 := by
  decide
example : get .wkt (set .wkt false 0) = false := by decide

end LasModel.Props.C20
