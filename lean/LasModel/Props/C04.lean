/-
C04 — chunked writing is equivalent to one-shot writing.
-/
import LasModel.Lemmas.Stats

namespace LasModel.Props.C04
open LasModel.Bytes LasModel.Header LasModel.Vlr LasModel.FileIO

theorem sessionOK_flatten {F} (o : FOps F) (h : Hdr) (chunks : List (List Rec)) (ev : List Vlr)
    (ok : SessionOK o h chunks ev) : SessionOK o h [chunks.flatten] ev :=
  { wf := ok.wf, bits := ok.bits, compat := ok.compat, hsize := ok.hsize, offset := ok.offset,
    cap := by simpa using ok.cap, evWF := ok.evWF, evVersion := ok.evVersion, evCount := ok.evCount,
    fileSize := by simpa using ok.fileSize }

/-- the statistics the header ends up with do not depend on the partition -/
theorem C04_stats {F} (o : FOps F) (good : F → Prop) (L : Laws o good) (gz : good o.zero) (h : Hdr)
    (chunks : List (List Rec)) : finalStats o h chunks = finalStats o h [chunks.flatten] := by
  unfold finalStats
  rw [foldStats_flatten o good L _ _ (resetStats_good o good L gz) chunks,
    foldStats_flatten o good L _ _ (resetStats_good o good L gz) [chunks.flatten]]
  simp

/-- **byte-for-byte**: for every partition of the point sequence into successive
    `write_points` calls — any chunk sizes, empty chunks included — followed by the EVLRs,
    the destination holds exactly the bytes that writing the whole sequence at once produces. -/
theorem C04_bytes {F} (o : FOps F) (good : F → Prop) (L : Laws o good) (gz : good o.zero) (h : Hdr)
    (chunks : List (List Rec)) (ev : List Vlr) (ok : SessionOK o h chunks ev) :
    session o h (sessionOps h chunks ev) = session o h (sessionOps h [chunks.flatten] ev) := by
  obtain ⟨vb, eb, hvb, heb, _, _, _, _, h1⟩ := session_form o h chunks ev ok
  obtain ⟨vb', eb', hvb', heb', _, _, _, _, h2⟩ := session_form o h [chunks.flatten] ev (sessionOK_flatten o h chunks ev ok)
  rw [hvb] at hvb'; injection hvb' with e1; subst e1
  rw [heb] at heb'; injection heb' with e2; subst e2
  rw [h1, h2]
  have : finalHdr o h chunks ev = finalHdr o h [chunks.flatten] ev := by
    unfold finalHdr
    rw [C04_stats o good L gz h chunks]
    simp
  rw [this]
  simp

/-- an empty chunk is a no-op in every state -/
theorem C04_empty {F} (o : FOps F) (s : WState F) (c : Chunk) (hc : c.recs = []) : writePoints o s c = .ok s := by
  simp [writePoints, hc]

/-- once the writer is finished (EVLRs written, or closed) a non-empty chunk is refused; no
    new state is produced, i.e. the destination is left as it was -/
theorem C04_after_done {F} (o : FOps F) (s : WState F) (c : Chunk) (hd : s.done = true) (hc : c.recs ≠ []) :
    writePoints o s c = .error .done := by
  unfold writePoints
  have : c.recs.isEmpty = false := by cases h : c.recs <;> simp_all
  simp [this, hd]

theorem C04_done_after_evlrs {F} (s s' : WState F) (ev : List Vlr) (hne : ev ≠ []) (h : writeEvlrs s ev = .ok s') :
    s'.done = true := by
  unfold writeEvlrs at h
  split at h
  · cases h
  · have : ev.isEmpty = false := by cases h' : ev <;> simp_all
    simp only [this, Bool.false_eq_true, if_false] at h
    split at h
    · cases h
    · injection h with h; subst h; rfl

theorem C04_done_after_close {F} (o : FOps F) (s s' : WState F) (h : writerClose o s = .ok s') : s'.done = true := by
  unfold writerClose at h
  split at h
  · cases h
  · injection h with h; subst h; rfl

/-- points of another point format (or record length) are refused -/
theorem C04_wrong_format {F} (o : FOps F) (s : WState F) (c : Chunk) (hd : s.done = false) (hc : c.recs ≠ [])
    (hf : c.fmt ≠ fmtOf s.hdr ∨ c.recLen ≠ s.hdr.recLen) : writePoints o s c = .error .format := by
  unfold writePoints
  have : c.recs.isEmpty = false := by cases h : c.recs <;> simp_all
  simp [this, hd, hf]

/-! ### non-vacuity: the hypotheses are satisfiable -/

/-- exact integer arithmetic is a model of the float laws for any positive scale -/
def intOps (sc off : Int) : FOps Int :=
  { render := fun _ x => x * sc + off, gt := fun a b => decide (a > b), lt := fun a b => decide (a < b),
    bits := fun x => (x % (2 ^ 64 : Nat)).toNat, ofBits := fun n => (n : Int), lowest := -(2 ^ 62), highest := 2 ^ 62, zero := 0 }

theorem intOps_laws (sc off : Int) (hs : 0 < sc) (hb : ∀ x : Int, -(2 ^ 62) ≤ x * sc + off ∧ x * sc + off ≤ 2 ^ 62 → True) :
    Laws (intOps sc off) (fun _ => True) :=
  { good_render := fun _ _ => trivial, good_lowest := trivial, good_highest := trivial,
    lt_iff := by intro a b; simp [intOps],
    trans := by intro a b c _ _ _ h1 h2; simp [intOps] at *; omega,
    negtrans := by intro a b c _ _ _ h1 h2; simp [intOps] at *; omega,
    mono := by
      intro a x y hxy; simp only [intOps, gt_iff_lt, decide_eq_false_iff_not, Int.not_lt]
      have := Int.mul_le_mul_of_nonneg_right hxy (Int.le_of_lt hs); omega,
    tie_eq := by intro a x y h1 h2; simp [intOps] at *; omega }

theorem intOps_bits (sc off : Int) : BitsOK (intOps sc off) :=
  ⟨fun x => by
    simp only [intOps]
    have h1 := Int.emod_lt_of_pos x (show (0 : Int) < ((2 ^ 64 : Nat) : Int) by decide)
    have h2 := Int.emod_nonneg x (show ((2 ^ 64 : Nat) : Int) ≠ 0 by decide)
    omega⟩

def exampleHdr : Hdr :=
  { fileSourceId := 7, globalEncoding := 17, guid := List.replicate 16 9, vMajor := 1, vMinor := 2,
    systemId := [79, 84, 72, 69, 82], software := [108, 97, 115], doy := 60, year := 2024, fmtByte := 0, recLen := 20,
    count := 0, byReturn := List.replicate 15 0, doubles := List.replicate 12 0, waveformStart := 0, evlrStart := 0,
    nEvlrs := 0, extraHeader := [1, 2, 3], vlrs := [], extraVlr := [0, 0] }

theorem exampleHdr_wf : exampleHdr.WF :=
  { fsid := by decide, ge := by decide, guid := by decide, major := by decide, minor := by decide,
    sys := ⟨by intro b hb; simp [exampleHdr] at hb; rcases hb with h | h | h | h | h <;> subst h <;> decide, by decide⟩,
    soft := ⟨by intro b hb; simp [exampleHdr] at hb; rcases hb with h | h | h <;> subst h <;> decide, by decide⟩,
    doy := by decide, year := by decide, fmt := by decide, recLen := by decide, count := by decide,
    ret := ⟨by decide, by intro r hr; simp [exampleHdr, List.mem_replicate] at hr; subst hr; decide⟩,
    doubles := ⟨by decide, by intro r hr; simp [exampleHdr, List.mem_replicate] at hr; subst hr; decide⟩,
    wave := by decide, evlr := ⟨by decide, by decide⟩,
    vlrs := by intro v hv; simp [exampleHdr] at hv, nvlrs := by decide }

/-- a concrete session (three chunks, one empty, of 20-byte records) meets `SessionOK` -/
example : SessionOK (intOps 1 0) exampleHdr [[List.replicate 20 1], [], [List.replicate 20 2, List.replicate 20 3]] [] :=
  { wf := exampleHdr_wf, bits := intOps_bits 1 0, compat := ⟨(2, 0), rfl⟩, hsize := by decide, offset := by decide,
    cap := by decide, evWF := (by intro v hv; cases hv), evVersion := fun _ => rfl, evCount := by decide,
    fileSize := by decide }

end LasModel.Props.C04
