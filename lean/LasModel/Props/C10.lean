/-
C10 — dimension views compute what numpy computes on the same values.
Theorems for the fragments of the views that have logic of their own; operators that are
forwarded to the materialised array are delegations (differential run only).
-/
import LasModel.Model.Views

namespace LasModel.Props.C10
open LasModel.SubField LasModel.Views LasModel.Bits

/-- a sub-field value never exceeds the field's maximum -/
theorem getBits_le : ∀ m ∈ Gen.allMasks, ∀ b < 256, getBits m b ≤ maxOf m := by decide +kernel

/-- in-range constants: comparing the masked, unshifted byte with the shifted constant is
    comparing the field value with the constant (complete finite space) -/
theorem cmp_in_range : ∀ m ∈ Gen.allMasks, ∀ b < 256, ∀ c ≤ maxOf m,
    (decide ((b &&& m) < (c <<< lsb m)) = decide (getBits m b < c)) ∧
    (decide ((b &&& m) ≤ (c <<< lsb m)) = decide (getBits m b ≤ c)) := by decide +kernel

/-- `field op c` selects exactly the points numpy selects on the materialised field, for
    every mask of the table, every byte, every operator and every integer constant `c` —
    any magnitude, any sign. -/
theorem C10_cmp (op : Cmp) (m : Nat) (hm : m ∈ Gen.allMasks) (b : Nat) (hb : b < 256) (c : Int) :
    cmpSub op m b c = op.eval (getBits m b) c := by
  have hle := getBits_le m hm b hb
  unfold cmpSub
  by_cases h1 : c > (maxOf m : Int)
  · simp only [h1, if_true]
    cases op <;> simp [Cmp.eval] <;> omega
  · simp only [h1, if_false]
    by_cases h2 : c < 0
    · simp only [h2, if_true]
      cases op <;> simp [Cmp.eval] <;> omega
    · simp only [h2, if_false]
      have hc : c.toNat ≤ maxOf m := by omega
      have hcc : (c.toNat : Int) = c := by omega
      obtain ⟨hlt, hle'⟩ := cmp_in_range m hm b hb c.toNat hc
      cases op <;> simp only [Cmp.eval]
      · rw [← hcc]; simp only [Int.ofNat_lt]; rw [hcc]; exact hlt
      · rw [← hcc]; simp only [Int.ofNat_le]; rw [hcc]; exact hle'
      · rw [← hcc]; simp only [gt_iff_lt, Int.ofNat_lt]; rw [hcc]
        have := hle'; simp only [decide_eq_decide] at this ⊢; omega
      · rw [← hcc]; simp only [ge_iff_le, Int.ofNat_le]; rw [hcc]
        have := hlt; simp only [decide_eq_decide] at this ⊢; omega

/-- the corollary singled out by the property: a constant above the field's maximum makes
    `<` and `<=` select every point (and `>`/`>=` none) -/
theorem C10_cmp_above (m : Nat) (hm : m ∈ Gen.allMasks) (b : Nat) (hb : b < 256) (c : Int)
    (hc : c > (maxOf m : Int)) :
    cmpSub .lt m b c = true ∧ cmpSub .le m b c = true ∧
    cmpSub .gt m b c = false ∧ cmpSub .ge m b c = false := by
  have hle := getBits_le m hm b hb
  refine ⟨?_, ?_, ?_, ?_⟩ <;> rw [C10_cmp _ m hm b hb c] <;> simp [Cmp.eval] <;> omega

theorem C10_cmp_col (op : Cmp) (m : Nat) (hm : m ∈ Gen.allMasks) (col : List Nat)
    (hb : ∀ b ∈ col, b < 256) (c : Int) :
    cmpCol op m col c = (readCol m col).map (fun (v : Nat) => op.eval (v : Int) c) := by
  unfold cmpCol readCol
  rw [List.map_map]
  apply List.map_congr_left
  intro b hbm
  exact C10_cmp op m hm b (hb b hbm) c

/-- indexing a sub-field view then materialising = materialising then indexing, for every
    resolved in-bounds index list (slice, mask, index list, single index) -/
theorem C10_index_sub (m : Nat) (col idxs : List Nat) (hin : ∀ i ∈ idxs, i < col.length) :
    indexSub m col idxs = gather (readCol m col) idxs := by
  unfold indexSub readCol gather
  rw [List.map_map]
  apply List.map_congr_left
  intro i hi
  have := hin i hi
  simp [List.getD_eq_getElem?_getD, this]

section Scaled
variable {σ β : Type} [Inhabited σ] [Inhabited β] (app : σ → Int → β)

/-- element-position indexing of a scaled multi-element view applies the scale and offset of
    *that* element: `view[is, j]` equals column `j` of the materialised array at `is` -/
theorem C10_index_elem (sc : List σ) (rows : List (List Int)) (is : List Nat) (j : Nat)
    (hin : ∀ i ∈ is, i < rows.length) (hj : j < sc.length)
    (hw : ∀ r ∈ rows, r.length = sc.length) :
    indexElem app sc rows is j =
      (gather (matScaled app sc rows) is).map fun r => r.getD j default := by
  unfold indexElem gather matScaled
  rw [List.map_map, List.map_map]
  apply List.map_congr_left
  intro i hi
  have hi' := hin i hi
  have hr : (rows[i]).length = sc.length := hw _ (List.getElem_mem hi')
  simp [List.getD_eq_getElem?_getD, hi', List.getElem?_map, hr, hj]

omit [Inhabited σ] [Inhabited β] in
/-- point indexing keeps every element's own scaling -/
theorem C10_index_points (sc : List σ) (rows : List (List Int)) (is : List Nat)
    (hin : ∀ i ∈ is, i < rows.length) :
    indexPoints app sc rows is = gather (matScaled app sc rows) is := by
  unfold indexPoints gather matScaled
  rw [List.map_map]
  apply List.map_congr_left
  intro i hi
  have hi' := hin i hi
  simp [List.getD_eq_getElem?_getD, hi']
end Scaled

theorem foldl_max_map (s o : Int) (hs : 0 < s) (xs : List Int) (x : Int) :
    (xs.map (applyInt s o)).foldl max (applyInt s o x) = applyInt s o (xs.foldl max x) := by
  induction xs generalizing x with
  | nil => rfl
  | cons y ys ih =>
    simp only [List.map_cons, List.foldl_cons]
    have : max (applyInt s o x) (applyInt s o y) = applyInt s o (max x y) := by
      unfold applyInt
      rcases Int.le_total x y with h | h
      · rw [Int.max_eq_right h, Int.max_eq_right]
        have := Int.mul_le_mul_of_nonneg_right h (Int.le_of_lt hs); omega
      · rw [Int.max_eq_left h, Int.max_eq_left]
        have := Int.mul_le_mul_of_nonneg_right h (Int.le_of_lt hs); omega
    rw [this, ih]

theorem foldl_min_map (s o : Int) (hs : 0 < s) (xs : List Int) (x : Int) :
    (xs.map (applyInt s o)).foldl min (applyInt s o x) = applyInt s o (xs.foldl min x) := by
  induction xs generalizing x with
  | nil => rfl
  | cons y ys ih =>
    simp only [List.map_cons, List.foldl_cons]
    have : min (applyInt s o x) (applyInt s o y) = applyInt s o (min x y) := by
      unfold applyInt
      rcases Int.le_total x y with h | h
      · rw [Int.min_eq_left h, Int.min_eq_left]
        have := Int.mul_le_mul_of_nonneg_right h (Int.le_of_lt hs); omega
      · rw [Int.min_eq_right h, Int.min_eq_right]
        have := Int.mul_le_mul_of_nonneg_right h (Int.le_of_lt hs); omega
    rw [this, ih]

/-- the view's own max/min (scale the integer extremum) equals the extremum of the
    materialised values, for every positive scale, in exact arithmetic -/
theorem C10_minmax (s o : Int) (hs : 0 < s) (xs : List Int) :
    maxScaled s o xs = listMax (xs.map (applyInt s o)) ∧
    minScaled s o xs = listMin (xs.map (applyInt s o)) := by
  cases xs with
  | nil => simp [maxScaled, minScaled, listMax, listMin]
  | cons x xs =>
    simp only [maxScaled, minScaled, listMax, listMin, List.map_cons, Option.map_some,
      foldl_max_map s o hs, foldl_min_map s o hs, and_self]

/-! ### the operators forwarded to the materialised array (tables generated from the source of the view classes) -/

/-- every operator method of `ArrayView` evaluates `np.array(self) <op> other` with *its own* operator: the expression on
    the view is, by the method's text, the same expression on the materialised array -/
theorem C10_delegation_ops : ∀ p ∈ Gen.Views.arrayViewOps, pyOperator p.1 = some p.2 := by decide +kernel

/-- all eleven operators of the property are delegated that way -/
theorem C10_delegation_complete : ∀ m ∈ propertyOperators, m ∈ Gen.Views.arrayViewOps.map (·.1) := by decide +kernel

/-- `view.max()` / `view.min()` of the generic view are the same methods of the materialised array -/
theorem C10_delegation_minmax : Gen.Views.arrayViewMinMax = [("max", "max"), ("min", "min")] := by decide +kernel

/-- the sub-field and scaled views route each rich comparison to `_do_comparison` with that same comparison, and the
    sub-field view overrides exactly the four ordering comparisons (`==`, `!=` stay delegated) -/
theorem C10_cmp_routing :
    (∀ p ∈ Gen.Views.subFieldCmp, cmpName p.1 = some p.2) ∧ (∀ p ∈ Gen.Views.scaledCmp, cmpName p.1 = some p.2) ∧
    (∀ m ∈ Gen.Views.subFieldCmp.map (·.1), m ∈ ["__lt__", "__le__", "__gt__", "__ge__"]) ∧
    (∀ m ∈ ["__lt__", "__le__", "__gt__", "__ge__"], m ∈ Gen.Views.subFieldCmp.map (·.1)) := by
  refine ⟨by decide +kernel, by decide +kernel, by decide +kernel, by decide +kernel⟩

/-- non-vacuity -/
example : cmpCol .lt 7 [0x00, 0x07, 0xFA] 8 = [true, true, true] := by decide
example : cmpCol .ge 56 [0x00, 0x38, 0x10] 2 = [false, true, true] := by decide

end LasModel.Props.C10
