import LasModel.Model.Appender
namespace LasModel.Props.C06
theorem C06_placeholder : True := trivial
end LasModel.Props.C06
