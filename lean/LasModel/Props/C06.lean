/-
C06 — appending is equivalent to having written the concatenation.
-/
import LasModel.Lemmas.Append
import LasModel.Props.C04

namespace LasModel.Props.C06
open LasModel.Bytes LasModel.Header LasModel.Vlr LasModel.FileIO LasModel.Appender

/-- extra float law for the appender: a double read back from its bit pattern is the double
    that was written (`struct.pack`/`unpack` are inverse on the values that occur) -/
def BitsRoundTrip {F} (o : FOps F) (good : F → Prop) : Prop := ∀ x, good x → o.ofBits (o.bits x) = x

theorem goodStats_final {F} (o : FOps F) (good : F → Prop) (L : Laws o good) (gz : good o.zero) (h : Hdr)
    (As : List (List Rec)) : GoodStats o good (finalStats o h As) := by
  unfold finalStats
  rw [foldStats_flatten o good L _ _ (resetStats_good o good L gz)]
  split
  · exact resetStats_good o good L gz
  · rename_i hne
    exact (grow_grow o good L _ _ (resetStats_good o good L gz) _ _ hne hne).2

/-- the statistics the appender starts from are those the writer ended with (count and
    extrema; the per-return bins are the ones the version stores) -/
theorem statsOfHdr_final {F} (o : FOps F) (good : F → Prop) (L : Laws o good) (gz : good o.zero)
    (hob : BitsRoundTrip o good) (h : Hdr) (hd12 : h.doubles.length = 12) (As : List (List Rec)) (ev : List Vlr) :
    let sA := finalStats o h As
    let s0 := statsOfHdr o (canon (finalHdr o h As ev))
    s0.count = sA.count ∧ s0.maxs = sA.maxs ∧ s0.mins = sA.mins ∧
    s0.byReturn = (canon (finalHdr o h As ev)).byReturn := by
  intro sA s0
  have hg := goodStats_final o good L gz h As
  obtain ⟨l1, l2, g1, g2, _⟩ := hg
  obtain ⟨m0, m1, m2, hmx⟩ := list3 _ l1
  obtain ⟨n0, n1, n2, hmn⟩ := list3 _ l2
  have h6 : (h.doubles.take 6).length = 6 := by simp [hd12]
  have hcount : (canon (finalHdr o h As ev)).count = sA.count := rfl
  by_cases hc : sA.count = 0
  · have hreset : sA = resetStats o := by
      have hcnt : sA.count = As.flatten.length := by
        simp only [sA, finalStats]; rw [foldStats_count]; simp [resetStats]
      have hemp : As.flatten = [] := List.length_eq_zero_iff.mp (by omega)
      simp only [sA, finalStats]
      rw [foldStats_flatten o good L _ _ (resetStats_good o good L gz)]
      simp [hemp]
    simp only [s0, statsOfHdr, hcount, hc, if_true]
    rw [hreset]
    simp [resetStats]
  · simp only [s0, statsOfHdr, hcount, hc, if_false]
    refine ⟨by first | rfl | trivial, ?_, ?_, by first | rfl | trivial⟩
    · have g : good m0 ∧ good m1 ∧ good m2 := by
        rw [hmx] at g1; exact ⟨g1 _ (by simp), g1 _ (by simp), g1 _ (by simp)⟩
      simp only [canon, finalHdr, withStats]
      have hsc : ¬ (finalStats o h As).count = 0 := hc
      simp only [hsc, if_false]
      have hmx' : (finalStats o h As).maxs = [m0, m1, m2] := hmx
      simp [hmx', List.range, List.range.loop, List.getD_eq_getElem?_getD, List.getElem?_append_right, h6,
        hob _ g.1, hob _ g.2.1, hob _ g.2.2]
      exact hmx.symm
    · have g : good n0 ∧ good n1 ∧ good n2 := by
        rw [hmn] at g2; exact ⟨g2 _ (by simp), g2 _ (by simp), g2 _ (by simp)⟩
      simp only [canon, finalHdr, withStats]
      have hsc : ¬ (finalStats o h As).count = 0 := hc
      simp only [hsc, if_false]
      have hmn' : (finalStats o h As).mins = [n0, n1, n2] := hmn
      simp [hmn', List.range, List.range.loop, List.getD_eq_getElem?_getD, List.getElem?_append_right, h6,
        hob _ g.1, hob _ g.2.1, hob _ g.2.2]
      exact hmn.symm


theorem finalStats_append {F} (o : FOps F) (h : Hdr) (As Bs : List (List Rec)) :
    finalStats o h (As ++ Bs) = foldStats o (fmtOf h) (finalStats o h As) Bs := by
  unfold finalStats; exact foldStats_append o _ _ As Bs

theorem finalStats_returns {F} (o : FOps F) (h : Hdr) (As : List (List Rec)) :
    (finalStats o h As).byReturn = growReturns (fmtOf h) (List.replicate 15 0) As.flatten ∧
    (finalStats o h As).byReturn.length = 15 := by
  have : (finalStats o h As).byReturn = growReturns (fmtOf h) (List.replicate 15 0) As.flatten := by
    unfold finalStats; rw [foldStats_returns]; rfl
  exact ⟨this, by rw [this, growReturns_length]; simp⟩

/-- the six extrema patterns written for given statistics -/
def extOf {F} (o : FOps F) (s : Stats F) : List Nat :=
  let mx := if s.count = 0 then List.replicate 3 o.zero else s.maxs
  let mn := if s.count = 0 then List.replicate 3 o.zero else s.mins
  (List.range 3).flatMap fun a => [o.bits (mx.getD a o.zero), o.bits (mn.getD a o.zero)]

theorem withStats_doubles {F} (o : FOps F) (h : Hdr) (s : Stats F) (e n : Nat) :
    (withStats o h s e n).doubles = h.doubles.take 6 ++ extOf o s := rfl

theorem extOf_congr {F} (o : FOps F) (s s' : Stats F) (hc : s.count = s'.count) (hm : s.maxs = s'.maxs)
    (hn : s.mins = s'.mins) : extOf o s = extOf o s' := by
  unfold extOf; rw [hc, hm, hn]

/-- the header the appender writes at close is encoded exactly like the header of the
    one-shot file of all the points -/
theorem append_sameEnc {F} (o : FOps F) (good : F → Prop) (L : Laws o good) (gz : good o.zero)
    (hob : BitsRoundTrip o good) (h : Hdr) (hd12 : h.doubles.length = 12) (As Bs : List (List Rec)) (ev : List Vlr)
    (es : Nat) (hes : h.vMinor ≥ 4 → es = (finalHdr o h (As ++ Bs) ev).evlrStart) :
    SameEnc (withStats o (canon (finalHdr o h As ev))
        (foldStats o (fmtOf h) (statsOfHdr o (canon (finalHdr o h As ev))) Bs) es
        (canon (finalHdr o h As ev)).nEvlrs)
      (finalHdr o h (As ++ Bs) ev) := by
  obtain ⟨c0, c1, c2, c3⟩ := statsOfHdr_final o good L gz hob h hd12 As ev
  have hext := foldStats_ext_congr o (fmtOf h) _ _ c1 c2 Bs
  have hcnt : (foldStats o (fmtOf h) (statsOfHdr o (canon (finalHdr o h As ev))) Bs).count =
      (finalStats o h (As ++ Bs)).count := by
    rw [foldStats_count, c0, finalStats_append, foldStats_count]
  have hret : (foldStats o (fmtOf h) (statsOfHdr o (canon (finalHdr o h As ev))) Bs).byReturn =
      growReturns (fmtOf h) (canon (finalHdr o h As ev)).byReturn Bs.flatten := by
    rw [foldStats_returns, c3]
  have hretAB : (finalStats o h (As ++ Bs)).byReturn =
      growReturns (fmtOf h) (finalStats o h As).byReturn Bs.flatten := by
    rw [finalStats_append, foldStats_returns]
  have h6 : (h.doubles.take 6).length = 6 := by simp [hd12]
  have hrA := finalStats_returns o h As
  have hd6 : (canon (finalHdr o h As ev)).doubles.take 6 = h.doubles.take 6 := by
    have e : (canon (finalHdr o h As ev)).doubles = h.doubles.take 6 ++ extOf o (finalStats o h As) := rfl
    rw [e, List.take_left' h6]
  generalize foldStats o (fmtOf h) (statsOfHdr o (canon (finalHdr o h As ev))) Bs = sB at *
  refine { fsid := rfl, ge := rfl, guid := rfl, major := rfl, minor := rfl, sys := rfl, soft := rfl, doy := rfl,
           year := rfl, fmt := rfl, recLen := rfl, nvlrs := rfl, xh := rfl, xv := rfl, count := hcnt, doubles := ?_,
           wave := ?_, v14 := ?_, legacy := ?_ }
  · rw [withStats_doubles, hd6]
    have e : (finalHdr o h (As ++ Bs) ev).doubles = h.doubles.take 6 ++ extOf o (finalStats o h (As ++ Bs)) := rfl
    rw [e]
    congr 1
    apply extOf_congr o _ _ hcnt
    · rw [hext.1, ← finalStats_append]
    · rw [hext.2, ← finalStats_append]
  · intro h3
    have h3' : h.vMinor ≥ 3 := h3
    show (canon (finalHdr o h As ev)).waveformStart = h.waveformStart
    simp [canon, finalHdr, withStats, h3']
  · intro h4
    have h4' : h.vMinor ≥ 4 := h4
    refine ⟨hes h4', ?_, ?_⟩
    · show (canon (finalHdr o h As ev)).nEvlrs = (finalHdr o h (As ++ Bs) ev).nEvlrs
      simp [canon, finalHdr, withStats, h4']
    · show sB.byReturn = (finalStats o h (As ++ Bs)).byReturn
      rw [hret, hretAB]
      congr 1
      simp [canon, finalHdr, withStats, h4']
  · intro h4
    have h4' : ¬ h.vMinor ≥ 4 := by
      have : (withStats o (canon (finalHdr o h As ev)) sB es (canon (finalHdr o h As ev)).nEvlrs).vMinor = h.vMinor := rfl
      omega
    show sB.byReturn.take 5 = (finalStats o h (As ++ Bs)).byReturn.take 5
    rw [hret, hretAB]
    apply growReturns_take5
    · simp [canon, finalHdr, withStats, h4', hrA.2]
    · exact hrA.2
    · simp only [canon, finalHdr, withStats, h4', if_false]
      rw [List.take_append_of_le_length (by simp [hrA.2]), List.take_take]
      simp


theorem sessionOK_prefix {F} (o : FOps F) (h : Hdr) (As Bs : List (List Rec)) (ev : List Vlr)
    (ok : SessionOK o h (As ++ Bs) ev) : SessionOK o h As ev :=
  { wf := ok.wf, bits := ok.bits, compat := ok.compat, hsize := ok.hsize, offset := ok.offset,
    cap := by have := ok.cap; simp only [List.flatten_append, List.length_append] at this; omega,
    evWF := ok.evWF, evVersion := ok.evVersion, evCount := ok.evCount,
    fileSize := by
      have := ok.fileSize
      simp only [List.flatten_append, List.length_append] at this; omega }

/-- **appending = having written the concatenation, byte for byte**: for an original written
    by a writer session (any chunking `As`, any EVLRs) and any sequence of appended chunks `Bs`
    (empty ones included), the appender leaves exactly the file the writer produces for
    `As ++ Bs` — same point sequence, exact statistics, VLRs untouched, EVLRs relocated after
    the new points. -/
theorem C06_bytes {F} (o : FOps F) (good : F → Prop) (L : Laws o good) (gz : good o.zero)
    (hob : BitsRoundTrip o good) (h : Hdr) (As Bs : List (List Rec)) (ev : List Vlr)
    (ok : SessionOK o h (As ++ Bs) ev)
    (hfmt : Gen.formatIds.contains (fmtOf h) = true) (hrl : Gen.recLen (fmtOf h) ≤ h.recLen)
    (hrec : ∀ r ∈ As.flatten, r.length = h.recLen) (hevn : ∀ v ∈ ev, factory v = v) :
    ∃ file0 file1, session o h (sessionOps h As ev) = .ok file0 ∧
      session o h (sessionOps h (As ++ Bs) ev) = .ok file1 ∧
      appendSession o file0 (Bs.map (mkChunk h)) = .ok file1 := by
  have okA := sessionOK_prefix o h As Bs ev ok
  obtain ⟨vb, eb, hvb, heb, hvl, hdec, hebdec, hwA, hsA⟩ := session_form o h As ev okA
  obtain ⟨vb', eb', hvb', heb', _, _, _, hwAB, hsAB⟩ := session_form o h (As ++ Bs) ev ok
  rw [hvb] at hvb'; injection hvb' with e1; subst e1
  rw [heb] at heb'; injection heb' with e2; subst e2
  refine ⟨_, _, hsA, hsAB, ?_⟩
  have hw := ok.wf
  have hd12 := hw.doubles.1
  have hoff : base h.vMinor + h.extraHeader.length + vb.length + h.extraVlr.length < 2 ^ 32 := by
    have := ok.offset; rw [← hvl] at this; exact this
  -- the original file
  have hLA := encForm_length (finalHdr o h As ev) hwA vb
  have hLA' : (encForm (finalHdr o h As ev) vb).length = headerLenOf h := by
    rw [hLA]; simp [finalHdr, withStats, headerLenOf, hvl]
  obtain ⟨hdecode, hfo⟩ := decode_form (finalHdr o h As ev) hwA vb (As.flatten.flatten ++ eb)
    (by intro rest; simpa [finalHdr, withStats] using hdec rest)
    (by simpa [finalHdr, withStats] using ok.hsize) (by simpa [finalHdr, withStats] using hoff)
  have hflatA := flatten_length_uniform As.flatten h.recLen hrec
  have hcountA : (finalHdr o h As ev).count = As.flatten.length := by
    simp only [finalHdr, withStats, finalStats]; rw [foldStats_count]; simp [resetStats]
  have hevmap : ev.map factory = ev := by
    have : ∀ l : List Vlr, (∀ v ∈ l, factory v = v) → l.map factory = l := by
      intro l hl
      induction l with
      | nil => rfl
      | cons a l ih => simp [hl a (by simp), ih (fun v hv => hl v (by simp [hv]))]
    exact this ev hevn
  -- open
  unfold appendSession
  have hopen : openAppend o (encForm (finalHdr o h As ev) vb ++ As.flatten.flatten ++ eb) =
      .ok { hdr := canon (finalHdr o h As ev), stats := statsOfHdr o (canon (finalHdr o h As ev)),
            store := encForm (finalHdr o h As ev) vb ++ As.flatten.flatten ++ eb,
            pos := headerLenOf h + As.flatten.flatten.length,
            evlrs := if h.vMinor ≥ 4 ∧ ¬ ev.isEmpty then ev else [], offset := headerLenOf h } := by
    unfold openAppend
    rw [List.append_assoc, hdecode, hfo]
    simp only
    have c1 : fmtOf (canon (finalHdr o h As ev)) = fmtOf h := rfl
    have c2 : (canon (finalHdr o h As ev)).recLen = h.recLen := rfl
    have c3 : (canon (finalHdr o h As ev)).count = As.flatten.length := hcountA
    have c4 : (canon (finalHdr o h As ev)).vMinor = h.vMinor := rfl
    rw [c1, c2, c3, c4, hLA', ← hflatA]
    have hnl : ¬ (h.recLen < Gen.recLen (fmtOf h)) := by omega
    simp only [hfmt, not_true_eq_false, if_false, hnl]
    by_cases hemp : ev.isEmpty = true
    · have hne : (canon (finalHdr o h As ev)).nEvlrs = 0 := by simp [canon, finalHdr, withStats, hemp]
      simp [hne, hemp]
    · by_cases h4 : h.vMinor ≥ 4
      · have hne : (canon (finalHdr o h As ev)).nEvlrs = ev.length := by simp [canon, finalHdr, withStats, hemp, h4]
        have hse : (canon (finalHdr o h As ev)).evlrStart = headerLenOf h + As.flatten.flatten.length := by
          simp [canon, finalHdr, withStats, hemp, h4]
        have hpos : ev.length > 0 := by cases hh : ev with | nil => simp [hh] at hemp | cons a l => simp
        rw [hne, hse]
        simp only [h4, hpos, and_self, if_true, Nat.lt_irrefl, if_false, hemp, Bool.false_eq_true, not_false_eq_true]
        have hdrop : (encForm (finalHdr o h As ev) vb ++ (As.flatten.flatten ++ eb)).drop
            (headerLenOf h + As.flatten.flatten.length) = eb := by
          rw [← hLA', ← List.append_assoc, ← List.length_append]; exact List.drop_left
        rw [hdrop]
        have := hebdec []
        simp only [List.append_nil] at this
        rw [this, hevmap]
      · have := ok.evVersion (by omega); subst this; simp at hemp
  rw [hopen]
  simp only
  -- append all chunks
  have hcapB : (statsOfHdr o (canon (finalHdr o h As ev))).count + Bs.flatten.length ≤ maxPointCount h.vMinor := by
    have c0 := (statsOfHdr_final o good L gz hob h hd12 As ev).1
    rw [c0]
    have : (finalStats o h As).count = As.flatten.length := by
      unfold finalStats; rw [foldStats_count]; simp [resetStats]
    rw [this]
    have := ok.cap
    simp only [List.flatten_append, List.length_append] at this
    exact this
  have happ := appendAll_form o h
    { hdr := canon (finalHdr o h As ev), stats := statsOfHdr o (canon (finalHdr o h As ev)),
      store := encForm (finalHdr o h As ev) vb ++ As.flatten.flatten ++ eb,
      pos := headerLenOf h + As.flatten.flatten.length,
      evlrs := if h.vMinor ≥ 4 ∧ ¬ ev.isEmpty then ev else [], offset := headerLenOf h }
    ⟨rfl, rfl, rfl⟩ (encForm (finalHdr o h As ev) vb ++ As.flatten.flatten) eb rfl (by simp [hLA']) Bs hcapB
  rw [happ]
  simp only
  -- the header written at close
  have hcloseHdr : ∀ es, (h.vMinor ≥ 4 → es = (finalHdr o h (As ++ Bs) ev).evlrStart) →
      encodeHdr (withStats o (canon (finalHdr o h As ev))
        (foldStats o (fmtOf h) (statsOfHdr o (canon (finalHdr o h As ev))) Bs) es
        (canon (finalHdr o h As ev)).nEvlrs) true (headerLenOf h) = .ok (encForm (finalHdr o h (As ++ Bs) ev) vb) := by
    intro es hes
    have hse := append_sameEnc o good L gz hob h hd12 As Bs ev es hes
    rw [encodeHdr_congr _ _ hse rfl]
    obtain ⟨vb2, hvb2, _, _, henc2⟩ := encodeHdr_eq (finalHdr o h (As ++ Bs) ev) hwAB true (headerLenOf h)
    have : vb2 = vb := by
      have : encodeVlrs false h.vlrs = .ok vb2 := by simpa [finalHdr, withStats] using hvb2
      rw [hvb] at this; injection this with e; exact e.symm
    subst this
    have hsame : (base (finalHdr o h (As ++ Bs) ev).vMinor + (finalHdr o h (As ++ Bs) ev).extraHeader.length + vb2.length +
        (finalHdr o h (As ++ Bs) ev).extraVlr.length != headerLenOf h) = false := by
      simp [finalHdr, withStats, headerLenOf, hvl]
    simp only [hsame, Bool.and_false, Bool.false_eq_true, if_false] at henc2
    exact henc2
  have hLAB : (encForm (finalHdr o h (As ++ Bs) ev) vb).length = (encForm (finalHdr o h As ev) vb).length := by
    rw [encForm_length _ hwAB, encForm_length _ hwA]; simp [finalHdr, withStats]
  have hflatAB : (As ++ Bs).flatten.flatten = As.flatten.flatten ++ Bs.flatten.flatten := by simp
  unfold closeAppend
  simp only
  by_cases hasEv : h.vMinor ≥ 4 ∧ ¬ ev.isEmpty
  · have hcv : (canon (finalHdr o h As ev)).vMinor ≥ 4 := hasEv.1
    have hne : ¬ ev.isEmpty = true := by simpa using hasEv.2
    simp only [hasEv, not_false_eq_true, and_self, if_true, heb, hcv, hne, Bool.false_eq_true]
    rw [hcloseHdr _ (by
      intro _
      have e : (finalHdr o h (As ++ Bs) ev).evlrStart =
          if ev.isEmpty then 0 else headerLenOf h + (As ++ Bs).flatten.flatten.length := rfl
      rw [e, List.length_append, hLA', hflatAB, List.length_append]
      simp only [hne, Bool.false_eq_true, if_false]
      omega)]
    simp only
    have hw1 : writeAt (encForm (finalHdr o h As ev) vb ++ As.flatten.flatten ++ Bs.flatten.flatten ++
        eb.drop Bs.flatten.flatten.length)
        ((encForm (finalHdr o h As ev) vb ++ As.flatten.flatten).length + Bs.flatten.flatten.length) eb =
        encForm (finalHdr o h As ev) vb ++ As.flatten.flatten ++ Bs.flatten.flatten ++ eb := by
      rw [← List.length_append, writeAt_append]
      have : (eb.drop Bs.flatten.flatten.length).drop eb.length = [] := by
        apply List.drop_of_length_le; simp
      rw [this]
      try rw [List.append_nil]
    rw [hw1]
    rw [List.append_assoc, List.append_assoc, writeAt_zero _ _ _ hLAB]
    simp [hflatAB, List.append_assoc]
  · have hevs : (if h.vMinor ≥ 4 ∧ ¬ ev.isEmpty then ev else []) = [] := by rw [if_neg hasEv]
    have hev0 : ev = [] := by
      by_cases h4 : h.vMinor ≥ 4
      · by_cases he : ev.isEmpty = true
        · exact List.isEmpty_iff.mp he
        · exact absurd ⟨h4, he⟩ hasEv
      · exact ok.evVersion (by omega)
    subst hev0
    have hebn : eb = [] := by simp [encodeVlrs, pure, Except.pure] at heb; exact heb
    subst hebn
    simp only [hevs, List.isEmpty_nil, not_true_eq_false, and_false, if_false, encodeVlrs, pure, Except.pure]
    rw [hcloseHdr _ (by
      intro h4
      have h4' : h.vMinor ≥ 4 := h4
      simp [canon, finalHdr, withStats, h4'])]
    simp only
    rw [List.drop_nil, List.append_nil, List.append_assoc, writeAt_zero _ _ _ hLAB]
    simp [hflatAB, List.append_assoc]


/-- records of another point format (or record length) are refused; no new state is produced,
    i.e. the file is left untouched -/
theorem C06_format {F} (o : FOps F) (s : AState F) (c : Chunk)
    (hf : c.fmt ≠ fmtOf s.hdr ∨ c.recLen ≠ s.hdr.recLen) : appendPoints o s c = .error .format := by
  unfold appendPoints; simp [hf]

/-- any number of successive append sessions -/
def appendMany {F} (o : FOps F) (h : Hdr) (file : Bytes) : List (List (List Rec)) → Except AErr Bytes
  | [] => .ok file
  | Bs :: rest => match appendSession o file (Bs.map (mkChunk h)) with
    | .error e => .error e
    | .ok f => appendMany o h f rest

theorem C06_sessions {F} (o : FOps F) (good : F → Prop) (L : Laws o good) (gz : good o.zero)
    (hob : BitsRoundTrip o good) (h : Hdr) (ev : List Vlr)
    (hfmt : Gen.formatIds.contains (fmtOf h) = true) (hrl : Gen.recLen (fmtOf h) ≤ h.recLen)
    (hevn : ∀ v ∈ ev, factory v = v) (sessions : List (List (List Rec))) (As : List (List Rec))
    (ok : SessionOK o h (As ++ sessions.flatten) ev)
    (hrec : ∀ r ∈ (As ++ sessions.flatten).flatten, r.length = h.recLen) :
    ∃ file0 file1, session o h (sessionOps h As ev) = .ok file0 ∧
      session o h (sessionOps h (As ++ sessions.flatten) ev) = .ok file1 ∧
      appendMany o h file0 sessions = .ok file1 := by
  induction sessions generalizing As with
  | nil =>
    obtain ⟨_, _, _, _, _, _, _, _, hs⟩ := session_form o h As ev (by simpa using ok)
    exact ⟨_, _, hs, by simpa using hs, rfl⟩
  | cons Bs rest ih =>
    have hassoc : As ++ (Bs :: rest).flatten = (As ++ Bs) ++ rest.flatten := by simp
    rw [hassoc] at ok hrec ⊢
    have ok1 : SessionOK o h (As ++ Bs) ev := sessionOK_prefix o h (As ++ Bs) rest.flatten ev ok
    obtain ⟨f0, f1, h0, h1, ha⟩ := C06_bytes o good L gz hob h As Bs ev ok1 hfmt hrl
      (by intro r hr; exact hrec r (by simp only [List.flatten_append, List.mem_append] at hr ⊢; exact Or.inl (Or.inl hr)))
      hevn
    obtain ⟨g0, g1, i0, i1, ia⟩ := ih (As ++ Bs) ok hrec
    rw [h1] at i0; injection i0 with e; subst e
    refine ⟨f0, g1, h0, i1, ?_⟩
    simp only [appendMany, ha]
    exact ia

/-! non-vacuity: an interpretation satisfying `Laws`, `BitsOK` and `BitsRoundTrip` together -/

def clamp (x : Int) : Int := max (-(2 ^ 62)) (min x (2 ^ 62))

def intOps2 : FOps Int :=
  { render := fun _ x => clamp x, gt := fun a b => decide (a > b), lt := fun a b => decide (a < b),
    bits := fun x => ((x + 2 ^ 63) % (2 ^ 64 : Nat)).toNat, ofBits := fun n => (n : Int) - 2 ^ 63,
    lowest := -(2 ^ 62), highest := 2 ^ 62, zero := 0 }

def good2 (x : Int) : Prop := -(2 ^ 62) ≤ x ∧ x ≤ 2 ^ 62

example : Laws intOps2 good2 ∧ BitsOK intOps2 ∧ BitsRoundTrip intOps2 good2 ∧ good2 intOps2.zero := by
  refine ⟨?_, ?_, ?_, ?_⟩
  · exact
    { good_render := by intro a x; simp only [intOps2, clamp, good2]; omega,
      good_lowest := by simp only [intOps2, good2]; omega,
      good_highest := by simp only [intOps2, good2]; omega,
      lt_iff := by intro a b; simp [intOps2],
      trans := by intro a b c _ _ _ h1 h2; simp [intOps2] at *; omega,
      negtrans := by intro a b c _ _ _ h1 h2; simp [intOps2] at *; omega,
      mono := by intro a x y hxy; simp only [intOps2, clamp, gt_iff_lt, decide_eq_false_iff_not]; omega,
      tie_eq := by intro a x y h1 h2; simp only [intOps2, clamp, gt_iff_lt, decide_eq_false_iff_not] at *; omega }
  · constructor
    intro x
    simp only [intOps2]
    have h1 := Int.emod_lt_of_pos (x + 2 ^ 63) (show (0 : Int) < ((2 ^ 64 : Nat) : Int) by decide)
    have h2 := Int.emod_nonneg (x + 2 ^ 63) (show ((2 ^ 64 : Nat) : Int) ≠ 0 by decide)
    omega
  · intro x hx
    simp only [intOps2, good2] at *
    have : (x + 2 ^ 63) % ((2 ^ 64 : Nat) : Int) = x + 2 ^ 63 := Int.emod_eq_of_lt (by omega) (by omega)
    rw [this]
    omega
  · simp only [intOps2, good2]; omega

end LasModel.Props.C06
