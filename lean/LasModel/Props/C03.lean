/-
C03 — header statistics always describe the points actually stored.
-/
import LasModel.Lemmas.ReadBack
import LasModel.Lemmas.Stats

namespace LasModel.Props.C03
open LasModel.Bytes LasModel.Header LasModel.Vlr LasModel.FileIO

/-- number of records whose return number is `k` -/
def countReturn (fmt : Nat) (recs : List Rec) (k : Nat) : Nat := (recs.filter fun r => recReturn fmt r = k).length

theorem bump_getD (l : List Nat) (i j : Nat) (hi : i < l.length) :
    (bump l i).getD j 0 = l.getD j 0 + (if i = j then 1 else 0) := by
  unfold bump
  by_cases h : i = j
  · subst h; simp [List.getD_eq_getElem?_getD, List.getElem?_set, hi]
  · simp [List.getD_eq_getElem?_getD, List.getElem?_set, h]

/-- the per-return counts are the histogram of return numbers 1..15 (return number 0 is
    counted nowhere) -/
theorem C03_histogram (fmt : Nat) (l : List Nat) (hl : l.length = 15) (recs : List Rec) (j : Nat) (hj : j < 15) :
    (growReturns fmt l recs).getD j 0 = l.getD j 0 + countReturn fmt recs (j + 1) := by
  unfold growReturns countReturn
  induction recs generalizing l with
  | nil => simp
  | cons r rs ih =>
    simp only [List.foldl_cons, List.filter_cons]
    by_cases h0 : recReturn fmt r = 0 ∨ recReturn fmt r > 15
    · simp only [h0, if_true]
      rw [ih l hl]
      have : ¬ recReturn fmt r = j + 1 := by omega
      simp [this]
    · simp only [h0, if_false]
      have hlt : recReturn fmt r - 1 < l.length := by omega
      rw [ih _ (by rw [bump_length]; exact hl), bump_getD _ _ _ hlt]
      by_cases he : recReturn fmt r = j + 1
      · have : recReturn fmt r - 1 = j := by omega
        simp [he, this]; omega
      · have : ¬ recReturn fmt r - 1 = j := by omega
        simp [he, this]

/-- **files**: for every session (any partition into chunks, with or without EVLRs) the
    written file reads back with: point count = number of stored records; per-return counts =
    histogram; file length = offset to points + count × record length + EVLR bytes; the EVLR
    pointer locates the EVLRs exactly. -/
theorem C03_file {F} (o : FOps F) (h : Hdr) (chunks : List (List Rec)) (ev : List Vlr)
    (ok : SessionOK o h chunks ev)
    (hfmt : Gen.formatIds.contains (fmtOf h) = true) (hrl : Gen.recLen (fmtOf h) ≤ h.recLen) (hpos : 0 < h.recLen)
    (hrec : ∀ r ∈ chunks.flatten, r.length = h.recLen) :
    ∃ file eb, session o h (sessionOps h chunks ev) = .ok file ∧ encodeVlrs true ev = .ok eb ∧
      readFile file = .ok { hdr := canon (finalHdr o h chunks ev), records := chunks.flatten, evlrs := ev.map factory } ∧
      (finalHdr o h chunks ev).count = chunks.flatten.length ∧
      (∀ j < 15, (finalHdr o h chunks ev).byReturn.getD j 0 = countReturn (fmtOf h) chunks.flatten (j + 1)) ∧
      file.length = fileOffset file + chunks.flatten.length * h.recLen + eb.length ∧
      (ev ≠ [] → (finalHdr o h chunks ev).evlrStart = fileOffset file + chunks.flatten.length * h.recLen ∧
                 (finalHdr o h chunks ev).nEvlrs = ev.length) := by
  obtain ⟨vb, eb, hvb, heb, hvl, hdec, hebdec, hwF, hs⟩ := session_form o h chunks ev ok
  have hcount : (finalHdr o h chunks ev).count = chunks.flatten.length := by
    simp only [finalHdr, withStats, finalStats]
    rw [foldStats_count]; simp [resetStats]
  have hoff : base h.vMinor + h.extraHeader.length + vb.length + h.extraVlr.length < 2 ^ 32 := by
    have := ok.offset; rw [← hvl] at this; exact this
  have hflat := flatten_length_uniform chunks.flatten h.recLen hrec
  have hL := encForm_length (finalHdr o h chunks ev) hwF vb
  have hfo := (prefetch_encForm (finalHdr o h chunks ev) hwF vb (chunks.flatten.flatten ++ eb)
    (by simpa [finalHdr, withStats] using hoff)).1
  have hfo' : fileOffset (encForm (finalHdr o h chunks ev) vb ++ chunks.flatten.flatten ++ eb) =
      headerLenOf h := by
    rw [List.append_assoc, hfo, hL]; simp [finalHdr, withStats, headerLenOf, hvl]
  refine ⟨_, eb, hs, heb, ?_, hcount, ?_, ?_, ?_⟩
  · apply readFile_form (finalHdr o h chunks ev) hwF vb
    · intro rest; simpa [finalHdr, withStats] using hdec rest
    · simpa [finalHdr, withStats] using ok.hsize
    · simpa [finalHdr, withStats] using hoff
    · exact hebdec
    · exact hfmt
    · exact hrl
    · exact hpos
    · exact hrec
    · exact hcount
    · by_cases hemp : ev.isEmpty = true
      · simp [hemp, finalHdr, withStats]
      · have h4 : h.vMinor ≥ 4 := by
          by_cases h4 : h.vMinor ≥ 4
          · exact h4
          · have := ok.evVersion (by omega); subst this; simp at hemp
        simp only [hemp, Bool.false_eq_true, if_false]
        refine ⟨h4, by simp [finalHdr, withStats, hemp], ?_⟩
        simp [finalHdr, withStats, hemp, headerLenOf, hvl]
  · intro j hj
    have : (finalHdr o h chunks ev).byReturn = growReturns (fmtOf h) (List.replicate 15 0) chunks.flatten := by
      simp only [finalHdr, withStats, finalStats]
      rw [foldStats_returns]; rfl
    rw [this, C03_histogram _ _ (by simp) _ _ hj]
    have h0 : (List.replicate 15 0).getD j 0 = 0 := by
      rw [List.getD_eq_getElem?_getD, List.getElem?_replicate]; split <;> rfl
    omega
  · rw [hfo']
    simp only [List.length_append, hL, hflat]
    simp [finalHdr, withStats, headerLenOf, hvl]
  · intro hne
    have hemp : ev.isEmpty = false := by cases hh : ev <;> simp_all
    rw [hfo']
    simp [finalHdr, withStats, hemp, hflat]

/-- **extrema** (under the float laws, and with the reset values below/above every rendered
    value): the header's maximum on each axis is the rendered maximum stored integer, the
    minimum the rendered minimum; an empty cloud has zero extrema. -/
theorem C03_extrema {F} (o : FOps F) (good : F → Prop) (L : Laws o good) (gz : good o.zero)
    (hlow : ∀ a x, pymax o o.lowest (o.render a x) = o.render a x)
    (hhigh : ∀ a x, pymin o o.highest (o.render a x) = o.render a x)
    (h : Hdr) (chunks : List (List Rec)) (ev : List Vlr) (hd : h.doubles.length = 12) (a : Nat) (ha : a < 3) :
    let fin := finalHdr o h chunks ev
    (chunks.flatten = [] → fin.doubles.getD (6 + 2 * a) 0 = o.bits o.zero ∧ fin.doubles.getD (7 + 2 * a) 0 = o.bits o.zero) ∧
    (chunks.flatten ≠ [] →
      fin.doubles.getD (6 + 2 * a) 0 = o.bits (o.render a (intMax (chunks.flatten.map (recCoord a)))) ∧
      fin.doubles.getD (7 + 2 * a) 0 = o.bits (o.render a (intMin (chunks.flatten.map (recCoord a))))) := by
  intro fin
  have h6 : (h.doubles.take 6).length = 6 := by simp [hd]
  have hstats := foldStats_flatten o good L (fmtOf h) (resetStats o) (resetStats_good o good L gz) chunks
  have hcnt : (finalStats o h chunks).count = chunks.flatten.length := by
    unfold finalStats; rw [foldStats_count]; simp [resetStats]
  have ha' : a = 0 ∨ a = 1 ∨ a = 2 := by omega
  constructor
  · intro hemp
    have hc0 : (finalStats o h chunks).count = 0 := by rw [hcnt, hemp]; rfl
    rcases ha' with ha' | ha' | ha' <;> subst ha' <;>
      simp [fin, finalHdr, withStats, hc0, List.getD_eq_getElem?_getD, List.getElem?_append_right, h6,
        List.range, List.range.loop]
  · intro hne
    have hc0 : ¬ (finalStats o h chunks).count = 0 := by
      rw [hcnt]; intro h0; exact hne (List.length_eq_zero_iff.mp h0)
    have hst : finalStats o h chunks = grow o (fmtOf h) (resetStats o) chunks.flatten := by
      unfold finalStats; rw [hstats]; simp [hne]
    have hsum : ¬ (chunks.map List.length).sum = 0 := by
      rw [← List.length_flatten]; intro h0; exact hne (List.length_eq_zero_iff.mp h0)
    rcases ha' with ha' | ha' | ha' <;> subst ha' <;>
      simp [fin, finalHdr, withStats, hc0, List.getD_eq_getElem?_getD, List.getElem?_append_right, h6,
        List.range, List.range.loop, hst, grow, resetStats, hlow, hhigh, hsum]

/-! ### the in-memory header -/

/-- `LasHeader.update(points)`: reset, then zero extrema for no points, else `grow` -/
def updateStats {F} (o : FOps F) (fmt : Nat) (recs : List Rec) : Stats F :=
  if recs = [] then { resetStats o with maxs := List.replicate 3 o.zero, mins := List.replicate 3 o.zero }
  else grow o fmt (resetStats o) recs

structure LasMem (F : Type) where
  recs : List Rec
  stats : Stats F

inductive MemOp
  | setPoints (recs : List Rec)       -- las.points = record
  | getItem (idxs : List Nat)         -- las[slice / mask / index list]  (resolved positions)
  | updateHeader                      -- las.update_header()

def memStep {F} (o : FOps F) (fmt : Nat) (s : LasMem F) : MemOp → LasMem F
  | .setPoints recs => ⟨recs, updateStats o fmt recs⟩
  | .getItem idxs => let sel := idxs.map fun i => s.recs.getD i []; ⟨sel, updateStats o fmt sel⟩
  | .updateHeader => ⟨s.recs, updateStats o fmt s.recs⟩

/-- after points are assigned, after slicing/masking and after an explicit update, the
    in-memory statistics are those of the records held — for every history -/
theorem memStep_ok {F} (o : FOps F) (fmt : Nat) (s : LasMem F) (op : MemOp) :
    (memStep o fmt s op).stats = updateStats o fmt (memStep o fmt s op).recs := by
  cases op <;> rfl

theorem C03_mem {F} (o : FOps F) (fmt : Nat) (s : LasMem F) (ops : List MemOp)
    (h : s.stats = updateStats o fmt s.recs ∨ ops ≠ []) :
    (ops.foldl (memStep o fmt) s).stats = updateStats o fmt (ops.foldl (memStep o fmt) s).recs := by
  induction ops generalizing s with
  | nil =>
    rcases h with h | h
    · exact h
    · exact absurd rfl h
  | cons op ops ih =>
    simp only [List.foldl_cons]
    exact ih _ (Or.inl (memStep_ok o fmt s op))

/-- and they are the statistics a written file carries for the same records -/
theorem C03_mem_file {F} (o : FOps F) (h : Hdr) (recs : List Rec) :
    let st := updateStats o (fmtOf h) recs
    st.count = (finalStats o h [recs]).count ∧ st.byReturn = (finalStats o h [recs]).byReturn ∧
    (recs ≠ [] → st.maxs = (finalStats o h [recs]).maxs ∧ st.mins = (finalStats o h [recs]).mins) := by
  intro st
  by_cases hr : recs = []
  · subst hr; simp [st, updateStats, finalStats, foldStats, resetStats]
  · have he : recs.isEmpty = false := by cases hh : recs <;> simp_all
    simp [st, updateStats, finalStats, foldStats, hr, he]

end LasModel.Props.C03
