/-
C01 — lossless write/read round trip of point records.
-/
import LasModel.Lemmas.ReadBack
import LasModel.Lemmas.EncCongr

namespace LasModel.Props.C01
open LasModel.Bytes LasModel.Header LasModel.Vlr LasModel.FileIO

/-- `LasData.write` is the one-chunk session -/
theorem writeFile_eq {F} (o : FOps F) (h : Hdr) (recs : List Rec) (ev : List Vlr) :
    writeFile o h recs (some ev) = session o h (sessionOps h [recs] ev) := rfl

/-- what a LasData consists of, for the file format: records of the header's record length,
    a point format the reader knows, record length not below the format's standard size -/
structure ImageOK (h : Hdr) (recs : List Rec) : Prop where
  fmt : Gen.formatIds.contains (fmtOf h) = true
  recLen : Gen.recLen (fmtOf h) ≤ h.recLen
  pos : 0 < h.recLen
  recs : ∀ r ∈ recs, r.length = h.recLen

/-- **round trip**: for every header in the legal domain, every list of records of the right
    length — arbitrary bytes, so every bit pattern of every field — and every EVLR list:
    writing succeeds and reading the written bytes returns byte-identical records, the same
    count, the header with the recomputed statistics, and the EVLRs. -/
theorem C01_roundtrip {F} (o : FOps F) (h : Hdr) (recs : List Rec) (ev : List Vlr)
    (ok : SessionOK o h [recs] ev) (img : ImageOK h recs) :
    ∃ file, writeFile o h recs (some ev) = .ok file ∧
      readFile file = .ok { hdr := canon (finalHdr o h [recs] ev), records := recs, evlrs := ev.map factory } ∧
      (finalHdr o h [recs] ev).count = recs.length := by
  obtain ⟨vb, eb, hvb, heb, hvl, hdec, hebdec, hwF, hs⟩ := session_form o h [recs] ev ok
  refine ⟨_, by rw [writeFile_eq]; exact hs, ?_, ?_⟩
  · have hflat : [recs].flatten = recs := by simp
    rw [hflat]
    have hcount : (finalHdr o h [recs] ev).count = recs.length := by
      simp only [finalHdr, withStats, finalStats]
      rw [foldStats_count]; simp [resetStats]
    apply readFile_form (finalHdr o h [recs] ev) hwF vb
    · intro rest; simpa [finalHdr, withStats] using hdec rest
    · simpa [finalHdr, withStats] using ok.hsize
    · have := ok.offset; rw [← hvl] at this; simpa [finalHdr, withStats] using this
    · exact hebdec
    · exact img.fmt
    · exact img.recLen
    · exact img.pos
    · exact img.recs
    · exact hcount
    · by_cases hemp : ev.isEmpty = true
      · simp [hemp, finalHdr, withStats]
      · have h4 : h.vMinor ≥ 4 := by
          by_cases h4 : h.vMinor ≥ 4
          · exact h4
          · have := ok.evVersion (by omega); subst this; simp at hemp
        simp only [hemp, Bool.false_eq_true, if_false]
        refine ⟨h4, by simp [finalHdr, withStats, hemp], ?_⟩
        simp [finalHdr, withStats, hemp, headerLenOf, hvl]
  · simp only [finalHdr, withStats, finalStats]
    rw [foldStats_count]; simp [resetStats]

/-- what is read back has the same version, point format byte, record length, scales and
    offsets (bit patterns), strings, GUID, VLRs as the header that was written -/
theorem C01_header_fields {F} (o : FOps F) (h : Hdr) (recs : List Rec) (ev : List Vlr)
    (hd : h.doubles.length = 12) :
    let r := canon (finalHdr o h [recs] ev)
    r.vMajor = h.vMajor ∧ r.vMinor = h.vMinor ∧ r.fmtByte = h.fmtByte ∧ r.recLen = h.recLen ∧
    r.doubles.take 6 = h.doubles.take 6 ∧ r.systemId = h.systemId ∧ r.software = h.software ∧
    r.guid = h.guid ∧ r.vlrs = h.vlrs ∧ r.fileSourceId = h.fileSourceId ∧ r.globalEncoding = h.globalEncoding ∧
    r.doy = h.doy ∧ r.year = h.year ∧ r.extraHeader = h.extraHeader ∧ r.extraVlr = h.extraVlr := by
  have h6 : (h.doubles.take 6).length = 6 := by simp [hd]
  simp [canon, finalHdr, withStats, List.take_left' h6]

/-- the writer works on its own copy: the caller's header fields are never altered by any
    sequence of operations -/
theorem C01_pure {F} (o : FOps F) (s s' : WState F) (ops : List WOp) (h : runOps o s ops = .ok s') :
    s'.hdr = s.hdr := by
  induction ops generalizing s with
  | nil => simp [runOps] at h; subst h; rfl
  | cons op ops ih =>
    simp only [runOps] at h
    cases hx : writerStep o s op with
    | error e => simp [hx] at h
    | ok s1 =>
      simp only [hx] at h
      rw [ih s1 h]
      cases op with
      | points c =>
        simp only [writerStep, writePoints] at hx
        split at hx
        · injection hx with hx; subst hx; rfl
        · split at hx
          · cases hx
          · split at hx
            · cases hx
            · split at hx
              · cases hx
              · injection hx with hx; subst hx; rfl
      | evlrs l =>
        simp only [writerStep, writeEvlrs] at hx
        split at hx
        · cases hx
        · split at hx
          · injection hx with hx; subst hx; rfl
          · split at hx
            · cases hx
            · injection hx with hx; subst hx; rfl


/-- **write after read is idempotent**: writing what was read back (the decoded header, the
    same records, the EVLRs in their normal form) produces byte for byte the file that was
    read. -/
theorem C01_idempotent {F} (o : FOps F) (h : Hdr) (recs : List Rec) (ev : List Vlr)
    (ok : SessionOK o h [recs] ev) (hevn : ∀ v ∈ ev, factory v = v) :
    ∃ file, writeFile o h recs (some ev) = .ok file ∧
      writeFile o (canon (finalHdr o h [recs] ev)) recs (some (ev.map factory)) = .ok file := by
  obtain ⟨vb, eb, hvb, heb, hvl, hdec, hebdec, hwF, hs⟩ := session_form o h [recs] ev ok
  have hevmap : ev.map factory = ev := by
    have : ∀ l : List Vlr, (∀ v ∈ l, factory v = v) → l.map factory = l := by
      intro l hl
      induction l with
      | nil => rfl
      | cons a l ih => simp [hl a (by simp), ih (fun v hv => hl v (by simp [hv]))]
    exact this ev hevn
  refine ⟨_, by rw [writeFile_eq]; exact hs, ?_⟩
  rw [hevmap, writeFile_eq]
  -- the read-back header is again in the legal domain, with the same sizes
  have hw2 : (canon (finalHdr o h [recs] ev)).WF := canon_wf _ hwF
  have ok2 : SessionOK o (canon (finalHdr o h [recs] ev)) [recs] ev :=
    { wf := hw2, bits := ok.bits, compat := ok.compat, hsize := ok.hsize, offset := ok.offset, cap := ok.cap,
      evWF := ok.evWF, evVersion := ok.evVersion, evCount := ok.evCount, fileSize := ok.fileSize }
  obtain ⟨vb2, eb2, hvb2, heb2, _, _, _, hwF2, hs2⟩ := session_form o (canon (finalHdr o h [recs] ev)) [recs] ev ok2
  have e1 : vb2 = vb := by
    have : encodeVlrs false h.vlrs = .ok vb2 := hvb2
    rw [hvb] at this; injection this with e; exact e.symm
  subst e1
  rw [heb] at heb2; injection heb2 with e2; subst e2
  rw [hs2]
  have hd12 := ok.wf.doubles.1
  have h6 : (h.doubles.take 6).length = 6 := by simp [hd12]
  have hse : SameEnc (finalHdr o (canon (finalHdr o h [recs] ev)) [recs] ev) (finalHdr o h [recs] ev) := by
    refine { fsid := rfl, ge := rfl, guid := rfl, major := rfl, minor := rfl, sys := rfl, soft := rfl, doy := rfl,
             year := rfl, fmt := rfl, recLen := rfl, nvlrs := rfl, xh := rfl, xv := rfl, count := rfl, doubles := ?_,
             wave := ?_, v14 := ?_, legacy := ?_ }
    · simp only [finalHdr, withStats, canon, finalStats]
      rw [List.take_left' h6]
      rfl
    · intro h3
      have h3' : h.vMinor ≥ 3 := h3
      simp [finalHdr, withStats, canon, h3']
    · intro _; exact ⟨rfl, rfl, rfl⟩
    · intro _; rfl
  rw [encForm_congr _ _ hse]

end LasModel.Props.C01
