/-
C19 — trying again: an append session on what a failed writer session left (its header, the records of the
chunks that were written completely, then whatever the failed write still stored).
-/
import LasModel.Props.C06
import LasModel.Props.C01

namespace LasModel.Props.C19Retry
open LasModel.Bytes LasModel.Header LasModel.Vlr LasModel.FileIO LasModel.Appender LasModel.Props.C06

/-- **appending to a file that is followed by stray bytes**: the file is what a writer session for `As` leaves (no
    EVLRs), followed by any bytes `T` - for instance those a failed write still stored before the session was closed.
    An append session adding the chunks `Bs` leaves exactly the one-shot file of `As ++ Bs`, followed by what is left of
    `T` beyond the new records; reading it returns the records of `As` followed by those of `Bs`. -/
theorem C19_retry {F} (o : FOps F) (good : F → Prop) (L : Laws o good) (gz : good o.zero)
    (hob : BitsRoundTrip o good) (h : Hdr) (As Bs : List (List Rec)) (T : Bytes)
    (ok : SessionOK o h (As ++ Bs) [])
    (hfmt : Gen.formatIds.contains (fmtOf h) = true) (hrl : Gen.recLen (fmtOf h) ≤ h.recLen)
    (hrec : ∀ r ∈ As.flatten, r.length = h.recLen) :
    ∃ file0 file1, session o h (sessionOps h As []) = .ok file0 ∧
      session o h (sessionOps h (As ++ Bs) []) = .ok file1 ∧
      appendSession o (file0 ++ T) (Bs.map (mkChunk h)) = .ok (file1 ++ T.drop Bs.flatten.flatten.length) := by
  have okA := sessionOK_prefix o h As Bs [] ok
  obtain ⟨vb, eb, hvb, heb, hvl, hdec, hebdec, hwA, hsA⟩ := session_form o h As [] okA
  obtain ⟨vb', eb', hvb', heb', _, _, _, hwAB, hsAB⟩ := session_form o h (As ++ Bs) [] ok
  rw [hvb] at hvb'; injection hvb' with e1; subst e1
  rw [heb] at heb'; injection heb' with e2; subst e2
  have hebn : eb = [] := by simp [encodeVlrs, pure, Except.pure] at heb; exact heb
  subst hebn
  simp only [List.append_nil] at hsA hsAB
  refine ⟨_, _, hsA, hsAB, ?_⟩
  have hw := ok.wf
  have hd12 := hw.doubles.1
  have hoff : base h.vMinor + h.extraHeader.length + vb.length + h.extraVlr.length < 2 ^ 32 := by
    have := ok.offset; rw [← hvl] at this; exact this
  have hLA := encForm_length (finalHdr o h As []) hwA vb
  have hLA' : (encForm (finalHdr o h As []) vb).length = headerLenOf h := by
    rw [hLA]; simp [finalHdr, withStats, headerLenOf, hvl]
  obtain ⟨hdecode, hfo⟩ := decode_form (finalHdr o h As []) hwA vb (As.flatten.flatten ++ T)
    (by intro rest; simpa [finalHdr, withStats] using hdec rest)
    (by simpa [finalHdr, withStats] using ok.hsize) (by simpa [finalHdr, withStats] using hoff)
  have hflatA := flatten_length_uniform As.flatten h.recLen hrec
  have hcountA : (finalHdr o h As []).count = As.flatten.length := by
    simp only [finalHdr, withStats, finalStats]; rw [foldStats_count]; simp [resetStats]
  unfold appendSession
  have hopen : openAppend o (encForm (finalHdr o h As []) vb ++ As.flatten.flatten ++ T) =
      .ok { hdr := canon (finalHdr o h As []), stats := statsOfHdr o (canon (finalHdr o h As [])),
            store := encForm (finalHdr o h As []) vb ++ As.flatten.flatten ++ T,
            pos := headerLenOf h + As.flatten.flatten.length, evlrs := [], offset := headerLenOf h } := by
    unfold openAppend
    rw [List.append_assoc, hdecode, hfo]
    simp only
    have c1 : fmtOf (canon (finalHdr o h As [])) = fmtOf h := rfl
    have c2 : (canon (finalHdr o h As [])).recLen = h.recLen := rfl
    have c3 : (canon (finalHdr o h As [])).count = As.flatten.length := hcountA
    rw [c1, c2, c3, hLA', ← hflatA]
    have hnl : ¬ (h.recLen < Gen.recLen (fmtOf h)) := by omega
    simp only [hfmt, not_true_eq_false, if_false, hnl]
    have hne : (canon (finalHdr o h As [])).nEvlrs = 0 := by simp [canon, finalHdr, withStats]
    simp [hne]
  rw [hopen]
  simp only
  have hcapB : (statsOfHdr o (canon (finalHdr o h As []))).count + Bs.flatten.length ≤ maxPointCount h.vMinor := by
    have c0 := (statsOfHdr_final o good L gz hob h hd12 As []).1
    rw [c0]
    have : (finalStats o h As).count = As.flatten.length := by
      unfold finalStats; rw [foldStats_count]; simp [resetStats]
    rw [this]
    have := ok.cap
    simp only [List.flatten_append, List.length_append] at this
    exact this
  have happ := appendAll_form o h
    { hdr := canon (finalHdr o h As []), stats := statsOfHdr o (canon (finalHdr o h As [])),
      store := encForm (finalHdr o h As []) vb ++ As.flatten.flatten ++ T,
      pos := headerLenOf h + As.flatten.flatten.length, evlrs := [], offset := headerLenOf h }
    ⟨rfl, rfl, rfl⟩ (encForm (finalHdr o h As []) vb ++ As.flatten.flatten) T rfl (by simp [hLA']) Bs hcapB
  rw [happ]
  simp only
  have hcloseHdr : encodeHdr (withStats o (canon (finalHdr o h As []))
        (foldStats o (fmtOf h) (statsOfHdr o (canon (finalHdr o h As []))) Bs) (canon (finalHdr o h As [])).evlrStart
        (canon (finalHdr o h As [])).nEvlrs) true (headerLenOf h) = .ok (encForm (finalHdr o h (As ++ Bs) []) vb) := by
    have hse := append_sameEnc o good L gz hob h hd12 As Bs [] (canon (finalHdr o h As [])).evlrStart (by
      intro h4
      have h4' : h.vMinor ≥ 4 := h4
      simp [canon, finalHdr, withStats, h4'])
    rw [encodeHdr_congr _ _ hse rfl]
    obtain ⟨vb2, hvb2, _, _, henc2⟩ := encodeHdr_eq (finalHdr o h (As ++ Bs) []) hwAB true (headerLenOf h)
    have : vb2 = vb := by
      have : encodeVlrs false h.vlrs = .ok vb2 := by simpa [finalHdr, withStats] using hvb2
      rw [hvb] at this; injection this with e; exact e.symm
    subst this
    have hsame : (base (finalHdr o h (As ++ Bs) []).vMinor + (finalHdr o h (As ++ Bs) []).extraHeader.length + vb2.length +
        (finalHdr o h (As ++ Bs) []).extraVlr.length != headerLenOf h) = false := by
      simp [finalHdr, withStats, headerLenOf, hvl]
    simp only [hsame, Bool.and_false, Bool.false_eq_true, if_false] at henc2
    exact henc2
  have hLAB : (encForm (finalHdr o h (As ++ Bs) []) vb).length = (encForm (finalHdr o h As []) vb).length := by
    rw [encForm_length _ hwAB, encForm_length _ hwA]; simp [finalHdr, withStats]
  have hflatAB : (As ++ Bs).flatten.flatten = As.flatten.flatten ++ Bs.flatten.flatten := by simp
  unfold closeAppend
  simp only [List.isEmpty_nil, not_true_eq_false, and_false, if_false, encodeVlrs, pure, Except.pure]
  rw [hcloseHdr]
  simp only
  rw [List.append_assoc, List.append_assoc, writeAt_zero _ _ _ hLAB]
  simp [hflatAB, List.append_assoc]

/-- reading a file that advertises no EVLR, followed by anything -/
theorem readFile_form_tail (fin : Hdr) (hw : fin.WF) (vb : Bytes)
    (hdec : ∀ rest, decodeVlrs false fin.vlrs.length (vb ++ rest) = (fin.vlrs, rest))
    (hhs : base fin.vMinor + fin.extraHeader.length < 2 ^ 16)
    (hoff : base fin.vMinor + fin.extraHeader.length + vb.length + fin.extraVlr.length < 2 ^ 32)
    (recs : List Rec) (T : Bytes)
    (hfmt : Gen.formatIds.contains (fmtOf fin) = true) (hrl : Gen.recLen (fmtOf fin) ≤ fin.recLen) (hpos : 0 < fin.recLen)
    (hrec : ∀ r ∈ recs, r.length = fin.recLen) (hcount : fin.count = recs.length) (hne : fin.nEvlrs = 0) :
    readFile (encForm fin vb ++ recs.flatten ++ T) = .ok { hdr := canon fin, records := recs, evlrs := [] } := by
  obtain ⟨hfo, hpre⟩ := prefetch_encForm fin hw vb (recs.flatten ++ T) hoff
  have hparse := parse_encForm fin hw vb hdec hhs hoff
  have hd : decodeHdr (encForm fin vb ++ recs.flatten ++ T) = .ok (canon fin) := by
    rw [List.append_assoc]
    unfold decodeHdr
    rw [hpre]
    exact hparse
  have hflat := flatten_length_uniform recs fin.recLen hrec
  have hfo' : fileOffset (encForm fin vb ++ recs.flatten ++ T) = (encForm fin vb).length := by
    rw [List.append_assoc]; exact hfo
  have hrecs : readRecords (canon fin) (encForm fin vb).length (encForm fin vb ++ recs.flatten ++ T) = .ok recs := by
    unfold readRecords
    have c2 : (canon fin).recLen = fin.recLen := rfl
    have c3 : (canon fin).count = fin.count := rfl
    rw [c2, c3]
    have havail : ((encForm fin vb ++ recs.flatten ++ T).drop (encForm fin vb).length).take (fin.count * fin.recLen)
        = recs.flatten := by
      rw [List.append_assoc, List.drop_left, hcount, ← hflat, List.take_left]
    simp only [havail]
    have hmod : ¬ (fin.recLen ≠ 0 ∧ recs.flatten.length % fin.recLen ≠ 0) := by
      rw [hflat]; simp
    have hnz : ¬ fin.recLen = 0 := by omega
    simp only [hmod, if_false, hnz]
    have hdiv : recs.flatten.length / fin.recLen = recs.length := by
      rw [hflat, Nat.mul_div_cancel _ hpos]
    rw [hdiv]
    have := splitRecs_flatten recs fin.recLen hrec []
    simp only [List.append_nil] at this
    rw [this]
  have hevl : readEvlrs (canon fin) (encForm fin vb ++ recs.flatten ++ T) = [] := by
    unfold readEvlrs
    have : (canon fin).nEvlrs = 0 := by simp [canon, hne]
    simp [this]
  unfold readFile
  rw [hd]
  simp only
  unfold readBody
  have c1 : fmtOf (canon fin) = fmtOf fin := rfl
  have c2 : (canon fin).recLen = fin.recLen := rfl
  rw [c1, c2, hfo', hrecs, hevl]
  have hnl : ¬ (fin.recLen < Gen.recLen (fmtOf fin)) := by omega
  simp only [hfmt, not_true_eq_false, if_false, hnl]

/-- ... and reading that file returns the records of `As` followed by those of `Bs` (the stray bytes that remain are
    beyond the records the header advertises) -/
theorem C19_retry_read {F} (o : FOps F) (h : Hdr) (Cs : List (List Rec)) (T : Bytes)
    (ok : SessionOK o h Cs []) (img : C01.ImageOK h Cs.flatten) :
    ∃ file1, session o h (sessionOps h Cs []) = .ok file1 ∧
      ∃ r, readFile (file1 ++ T) = .ok r ∧ r.records = Cs.flatten := by
  obtain ⟨vb, eb, hvb, heb, hvl, hdec, hebdec, hwF, hs⟩ := session_form o h Cs [] ok
  have hebn : eb = [] := by simp [encodeVlrs, pure, Except.pure] at heb; exact heb
  subst hebn
  simp only [List.append_nil] at hs
  refine ⟨_, hs, ?_⟩
  have hcount : (finalHdr o h Cs []).count = Cs.flatten.length := by
    simp only [finalHdr, withStats, finalStats]; rw [foldStats_count]; simp [resetStats]
  have := readFile_form_tail (finalHdr o h Cs []) hwF vb
    (by intro rest; simpa [finalHdr, withStats] using hdec rest)
    (by simpa [finalHdr, withStats] using ok.hsize)
    (by have := ok.offset; rw [← hvl] at this; simpa [finalHdr, withStats] using this)
    Cs.flatten T img.fmt img.recLen img.pos img.recs hcount (by simp [finalHdr, withStats])
  exact ⟨_, this, rfl⟩

end LasModel.Props.C19Retry
