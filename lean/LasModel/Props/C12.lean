/-
C12 — point-format conversion preserves shared dimensions or fails loudly.
-/
import LasModel.Model.Convert
import LasModel.Props.C07

namespace LasModel.Props.C12
open LasModel.Convert LasModel.Compat LasModel.SubField

/-- dimension names are unique within a format, for all 11 formats (generated tables) -/
theorem C12_names_nodup : ∀ f ∈ Gen.formatIds, (namesOf f).Nodup := by decide +kernel

/-- X, Y, Z are common to every pair of formats -/
theorem C12_coords_common : ∀ f ∈ Gen.formatIds, "X" ∈ namesOf f ∧ "Y" ∈ namesOf f ∧ "Z" ∈ namesOf f := by
  decide +kernel

theorem lookup_map_of_nodup (l : List (String × Nat × Nat)) (n : String) (x : Nat × Nat)
    (hmem : (n, x) ∈ l) (hnd : (l.map (·.1)).Nodup) :
    (l.map fun t => (t.1, t.2.1)).lookup n = some x.1 := by
  induction l with
  | nil => cases hmem
  | cons t ts ih =>
    simp only [List.map_cons, List.nodup_cons] at hnd
    rcases List.mem_cons.mp hmem with h | h
    · subst h; simp [List.lookup]
    · have hne : n ≠ t.1 := by
        intro e; apply hnd.1; rw [← e]; exact List.mem_map.mpr ⟨(n, x), h, rfl⟩
      simp only [List.map_cons, List.lookup]
      have : (n == t.1) = false := by simpa using hne
      rw [this]
      exact ih h hnd.2

/-- **shared dimensions are preserved**: when the conversion succeeds every dimension common to
    source and target has the source's value in the result, every other target dimension is 0 -/
theorem C12_common (src tgt : Nat) (ht : tgt ∈ Gen.formatIds) (v out : List (String × Nat))
    (h : convertVals src tgt v = .ok out) (d : String) (hd : d ∈ namesOf tgt) :
    out.lookup d = some (if (namesOf src).contains d then (v.lookup d).getD 0 else 0) := by
  unfold convertVals at h
  simp only at h
  split at h
  · injection h with h
    subst h
    have hnd := C12_names_nodup tgt ht
    obtain ⟨⟨n, mx⟩, hmem, hn⟩ := List.mem_map.mp hd
    simp only at hn
    subst hn
    generalize hl : ((dimsOf tgt).map fun d =>
      if (namesOf src).contains d.1 then (d.1, (v.lookup d.1).getD 0, d.2) else (d.1, 0, d.2)) = l
    have hnames : l.map (·.1) = namesOf tgt := by
      rw [← hl, List.map_map]; unfold namesOf
      apply List.map_congr_left; intro a _; simp only [Function.comp]; split <;> rfl
    have hm : (n, (if (namesOf src).contains n then (v.lookup n).getD 0 else 0, mx)) ∈ l := by
      rw [← hl]
      apply List.mem_map.mpr
      refine ⟨(n, mx), hmem, ?_⟩
      simp only
      split <;> rfl
    exact lookup_map_of_nodup l n _ hm (by rw [hnames]; exact hnd)
  · cases h

/-- **fails loudly, never truncates**: the conversion is refused exactly when some common
    dimension holds a value above the target dimension's maximum -/
theorem C12_loud (src tgt : Nat) (v : List (String × Nat)) :
    convertVals src tgt v = .error .overflow ↔
      ∃ d ∈ dimsOf tgt, (namesOf src).contains d.1 = true ∧ (v.lookup d.1).getD 0 > d.2 := by
  unfold convertVals
  simp only
  constructor
  · intro h
    split at h
    · cases h
    · rename_i hall
      rw [Bool.not_eq_true, List.all_eq_false] at hall
      obtain ⟨t, ht, hbad⟩ := hall
      obtain ⟨d, hd, hdt⟩ := List.mem_map.mp ht
      refine ⟨d, hd, ?_⟩
      by_cases hc : (namesOf src).contains d.1 = true
      · simp only [hc, if_true] at hdt
        subst hdt
        simp only [decide_eq_true_eq, Nat.not_le] at hbad
        exact ⟨hc, hbad⟩
      · simp only [hc, Bool.false_eq_true, if_false] at hdt
        subst hdt
        simp at hbad
  · rintro ⟨d, hd, hc, hgt⟩
    have : ¬ ((((dimsOf tgt).map fun d =>
        if (namesOf src).contains d.1 then (d.1, (v.lookup d.1).getD 0, d.2) else (d.1, 0, d.2)).all
        fun t => decide (t.2.1 ≤ t.2.2)) = true) := by
      rw [Bool.not_eq_true, List.all_eq_false]
      refine ⟨(d.1, (v.lookup d.1).getD 0, d.2), ?_, ?_⟩
      · exact List.mem_map.mpr ⟨d, hd, by rw [if_pos hc]⟩
      · simp only [decide_eq_true_eq, Nat.not_le]; exact hgt
    rw [if_neg this]

/-- the point count is kept, and extra bytes are carried unchanged -/
theorem C12_count (src tgt : Nat) (recs out : List LasModel.Bytes.Bytes) (h : convertRecs src tgt recs = .ok out) :
    out.length = recs.length := by
  induction recs generalizing out with
  | nil => simp [convertRecs] at h; subst h; rfl
  | cons r rs ih =>
    simp only [convertRecs] at h
    cases h1 : convertRec src tgt r with
    | error e => simp [h1] at h
    | ok r' =>
      simp only [h1] at h
      cases h2 : convertRecs src tgt rs with
      | error e => simp [h2] at h
      | ok rs' =>
        simp only [h2] at h
        injection h with h; subst h
        simp [ih rs' h2]

theorem C12_extra (src tgt : Nat) (rec out : LasModel.Bytes.Bytes) (h : convertRec src tgt rec = .ok out) :
    ∃ std, out = std ++ rec.drop (Gen.recLen src) := by
  unfold convertRec at h
  simp only at h
  split at h
  · injection h with h; exact ⟨_, h.symm⟩
  · cases h

/-- the dimensions reported as lost are exactly those absent from the target, for all
    11 × 11 pairs -/
theorem C12_lost : ∀ a ∈ Gen.formatIds, ∀ b ∈ Gen.formatIds, ∀ n,
    n ∈ lostDimensions a b ↔ (n ∈ namesOf a ∧ n ∉ namesOf b) := by
  intro a _ b _ n
  unfold lostDimensions
  simp [List.mem_filter]

/-- the version never goes down unless an older one is requested explicitly, and the result
    is always a compatible pair -/
theorem C12_version (cur f : Nat) (req : Option Nat) (r : Nat × Nat) (h : Compat.convert cur f req = .ok r) :
    compatible r.1 r.2 ∧ r.2 = f ∧ (req = none → cur ≤ r.1) := by
  refine ⟨C07.C07_compat_convert cur f req r h, ?_, ?_⟩
  · unfold Compat.convert at h
    obtain ⟨v, _, h⟩ := C07.bind_ok _ _ _ h
    unfold setBoth at h
    obtain ⟨f', hf', h⟩ := C07.bind_ok _ _ _ h
    obtain ⟨_, _, h⟩ := C07.bind_ok _ _ _ h
    unfold finish at h
    obtain ⟨_, _, h⟩ := C07.bind_ok _ _ _ h
    injection h with h
    subst h
    unfold mkFormat at hf'
    split at hf'
    · injection hf' with hf'; exact hf'.symm
    · cases hf'
  · intro hreq
    subst hreq
    unfold Compat.convert at h
    obtain ⟨v, hv, h⟩ := C07.bind_ok _ _ _ h
    unfold convertVersion at hv
    obtain ⟨p, _, hv⟩ := C07.bind_ok _ _ _ hv
    injection hv with hv
    unfold setBoth at h
    obtain ⟨f', _, h⟩ := C07.bind_ok _ _ _ h
    obtain ⟨_, _, h⟩ := C07.bind_ok _ _ _ h
    unfold finish at h
    obtain ⟨_, _, h⟩ := C07.bind_ok _ _ _ h
    injection h with h
    subst h
    subst hv
    exact Nat.le_max_left _ _

/-- non-vacuity: classification 200 does not fit format 3's five bits; 20 does -/
example : (convertVals 6 3 [("classification", 200)]).toOption = none := by decide +kernel
example : (convertVals 6 3 [("classification", 20), ("X", 7)]).toOption.bind (·.lookup "classification") = some 20 := by
  decide +kernel

end LasModel.Props.C12
