import LasModel.Model.Http
namespace LasModel.Props.C16X
open LasModel.Http

theorem xsumL_set (g : XW → Nat) (l : List XW) (i : Nat) (old new : XW) (h : l[i]? = some old) :
    xsumL g (l.set i new) + g old = xsumL g l + g new := by
  induction l generalizing i with
  | nil => simp at h
  | cons x xs ih =>
    cases i with
    | zero => simp at h; subst h; simp [xsumL]; omega
    | succ j =>
      simp only [List.getElem?_cons_succ] at h
      have := ih j h
      simp only [List.set_cons_succ, xsumL]; omega

/-- **every step strictly decreases a natural-number measure** -/
theorem X_measure (fails : Req → Bool) (s s' : XSys) (t : Nat) (h : xstep fails s t = some s') : xmu s' < xmu s := by
  unfold xstep at h
  split at h
  · -- main
    unfold xMain at h
    cases hm : s.main with
    | wait i =>
      rw [hm] at h
      simp only at h
      cases hj : s.jobs[i]? with
      | none => rw [hj] at h; injection h with h; subst h; simp [xmu, hm, xmWeight]; omega
      | some r =>
        rw [hj] at h
        simp only at h
        have hi : i < s.jobs.length := by
          rcases Nat.lt_or_ge i s.jobs.length with h1 | h1
          · exact h1
          · rw [List.getElem?_eq_none h1] at hj; cases hj
        cases hl : lookupDone s.done r with
        | none => rw [hl] at h; cases h
        | some b =>
          rw [hl] at h
          cases b with
          | true =>
            injection h with h; subst h
            simp only [xmu, hm]
            split <;> simp [xmWeight] <;> omega
          | false => injection h with h; subst h; simp [xmu, hm, xmWeight]; omega
    | exiting b => rw [hm] at h; injection h with h; subst h; simp [xmu, hm, xmWeight]
    | joining b =>
      rw [hm] at h
      simp only at h
      split at h
      · injection h with h; subst h; simp [xmu, hm, xmWeight]
      · cases h
    | finished o => rw [hm] at h; cases h
  · unfold xWorker at h
    cases hw : s.workers[t - 1]? with
    | none => rw [hw] at h; cases h
    | some w =>
      rw [hw] at h
      cases w with
      | idle =>
        simp only at h
        cases hq : s.queue with
        | nil =>
          rw [hq] at h
          simp only at h
          split at h
          · injection h with h; subst h
            have := xsumL_set xwWeight s.workers (t - 1) .idle .exited hw
            simp only [xmu, List.length_set, hq, xwWeight] at *; omega
          · cases h
        | cons r rest =>
          rw [hq] at h; injection h with h; subst h
          have := xsumL_set xwWeight s.workers (t - 1) .idle (.run r) hw
          simp only [xmu, List.length_set, hq, xwWeight, List.length_cons] at *; omega
      | run r =>
        injection h with h; subst h
        have := xsumL_set xwWeight s.workers (t - 1) (.run r) .idle hw
        simp only [xmu, List.length_set, xwWeight] at *; omega
      | exited => cases h

def running (r : Req) : XW → Nat
  | .run q => if q = r then 1 else 0
  | _ => 0

def expected (fails : Req → Bool) (reqs : List Req) : Outcome := if reqs.any fails then .raised else .data reqs

structure XInv (fails : Req → Bool) (reqs : List Req) (s : XSys) : Prop where
  jobs : s.jobs = reqs
  nonempty : 0 < s.workers.length
  acct : ∀ r, s.queue.count r + xsumL (running r) s.workers + (s.done.map (·.1)).count r = reqs.count r
  doneOk : ∀ x ∈ s.done, x.2 = !fails x.1
  alive : s.shutdown = false → ∀ w ∈ s.workers, w ≠ .exited
  shutW : ∀ i, s.main = .wait i → s.shutdown = false ∧ s.copied = reqs.take i ∧ i ≤ reqs.length ∧ ∀ r ∈ reqs.take i, fails r = false
  shutE : ∀ b, s.main = .exiting b → s.shutdown = false
  shutJ : ∀ b, s.main = .joining b → s.shutdown = true
  flag : ∀ b, (s.main = .exiting b ∨ s.main = .joining b) →
    (b = true → reqs.any fails = true) ∧ (b = false → s.copied = reqs ∧ reqs.any fails = false)
  fin : ∀ o, s.main = .finished o → o = expected fails reqs ∧ ∀ w ∈ s.workers, w = .exited

theorem lookupDone_mem {d : List (Req × Bool)} {r : Req} {b : Bool} (h : lookupDone d r = some b) : (r, b) ∈ d := by
  induction d with
  | nil => cases h
  | cons x xs ih =>
    obtain ⟨q, ok⟩ := x
    simp only [lookupDone] at h
    split at h
    · next hq => cases h; subst hq; exact List.mem_cons_self
    · exact List.mem_cons_of_mem _ (ih h)

theorem lookupDone_none {d : List (Req × Bool)} {r : Req} (h : lookupDone d r = none) : (d.map (·.1)).count r = 0 := by
  induction d with
  | nil => rfl
  | cons x xs ih =>
    obtain ⟨q, ok⟩ := x
    simp only [lookupDone] at h
    split at h
    · cases h
    · next hq =>
      simp only [List.map_cons, List.count_cons]
      rw [ih h]
      simp [hq]

theorem xsumL_replicate (g : XW → Nat) (w : XW) (hg : g w = 0) (n : Nat) : xsumL g (List.replicate n w) = 0 := by
  induction n with
  | zero => rfl
  | succ n ih => simp [List.replicate_succ, xsumL, hg, ih]

theorem xinv_init (fails : Req → Bool) (reqs : List Req) (threads : Nat) (hr : reqs ≠ []) (ht : 0 < threads) :
    XInv fails reqs (xinit reqs threads) := by
  have hlen : 0 < reqs.length := List.length_pos_iff.mpr hr
  refine ⟨rfl, ?_, ?_, ?_, ?_, ?_, ?_, ?_, ?_, ?_⟩
  · simp [xinit]; omega
  · intro r; simp [xinit, xsumL_replicate (running r) .idle rfl]
  · intro x hx; simp [xinit] at hx
  · intro _ w hw; simp [xinit, List.mem_replicate] at hw; rw [hw.2]; intro h; cases h
  · intro i hi
    simp only [xinit] at hi
    injection hi with hi; subst hi
    exact ⟨rfl, by simp [xinit], Nat.zero_le _, by intro r hr; simp at hr⟩
  · intro b hb; simp [xinit] at hb
  · intro b hb; simp [xinit] at hb
  · intro b hb; rcases hb with hb | hb <;> simp [xinit] at hb
  · intro o ho; simp [xinit] at ho

theorem mem_set_cases {l : List XW} {i : Nat} {a b : XW} (h : a ∈ l.set i b) : a ∈ l ∨ a = b :=
  List.mem_or_eq_of_mem_set h

theorem xinv_worker (fails : Req → Bool) (reqs : List Req) (s s' : XSys) (i : Nat) (hI : XInv fails reqs s)
    (h : xWorker fails s i = some s') : XInv fails reqs s' := by
  unfold xWorker at h
  cases hw : s.workers[i]? with
  | none => rw [hw] at h; cases h
  | some w =>
    rw [hw] at h
    have hmem : w ∈ s.workers := List.mem_of_getElem? hw
    -- a finished caller means every worker has exited: no worker step
    have hnf : ∀ o, s.main ≠ .finished o := by
      intro o ho
      have := (hI.fin o ho).2 w hmem
      subst this
      cases h
    cases w with
    | idle =>
      simp only at h
      cases hq : s.queue with
      | nil =>
        rw [hq] at h
        simp only at h
        split at h
        · next hs =>
          injection h with h; subst h
          have e := fun r => xsumL_set (running r) s.workers i .idle .exited hw
          refine ⟨hI.jobs, by simpa using hI.nonempty, ?_, hI.doneOk, ?_, hI.shutW, hI.shutE, hI.shutJ, hI.flag, ?_⟩
          · intro r; have := hI.acct r; have := e r; simp only [running, hq] at *; omega
          · intro hsf; rw [hs] at hsf; cases hsf
          · intro o ho; exact absurd ho (hnf o)
        · cases h
      | cons r rest =>
        rw [hq] at h; injection h with h; subst h
        have e := fun q => xsumL_set (running q) s.workers i .idle (.run r) hw
        refine ⟨hI.jobs, by simpa using hI.nonempty, ?_, hI.doneOk, ?_, hI.shutW, hI.shutE, hI.shutJ, hI.flag, ?_⟩
        · intro q
          have := hI.acct q; have := e q
          simp only [running, hq, List.count_cons] at *
          by_cases hrq : r = q <;> simp [hrq] at * <;> omega
        · intro hsf x hx
          rcases mem_set_cases hx with hx | hx
          · exact hI.alive hsf x hx
          · rw [hx]; intro hc; cases hc
        · intro o ho; exact absurd ho (hnf o)
    | run r =>
      injection h with h; subst h
      have e := fun q => xsumL_set (running q) s.workers i (.run r) .idle hw
      refine ⟨hI.jobs, by simpa using hI.nonempty, ?_, ?_, ?_, hI.shutW, hI.shutE, hI.shutJ, hI.flag, ?_⟩
      · intro q
        have := hI.acct q; have := e q
        simp only [running, List.map_append, List.count_append, List.map_cons, List.map_nil, List.count_cons, List.count_nil] at *
        by_cases hrq : r = q <;> simp [hrq] at * <;> omega
      · intro x hx
        rcases List.mem_append.mp hx with hx | hx
        · exact hI.doneOk x hx
        · simp only [List.mem_singleton] at hx; subst hx; rfl
      · intro hsf x hx
        rcases mem_set_cases hx with hx | hx
        · exact hI.alive hsf x hx
        · rw [hx]; intro hc; cases hc
      · intro o ho; exact absurd ho (hnf o)
    | exited => cases h


theorem any_take_false {reqs : List Req} {fails : Req → Bool} (h : ∀ r ∈ reqs, fails r = false) : reqs.any fails = false := by
  rw [Bool.eq_false_iff]
  intro hc
  rw [List.any_eq_true] at hc
  obtain ⟨r, hr, hf⟩ := hc
  rw [h r hr] at hf; cases hf

theorem xinv_main (fails : Req → Bool) (reqs : List Req) (s s' : XSys) (hI : XInv fails reqs s)
    (h : xMain s = some s') : XInv fails reqs s' := by
  unfold xMain at h
  cases hm : s.main with
  | wait i =>
    rw [hm] at h
    simp only at h
    obtain ⟨hsf, hcop, hile, hok⟩ := hI.shutW i hm
    cases hj : s.jobs[i]? with
    | none =>
      rw [hj] at h; injection h with h; subst h
      have hge : reqs.length ≤ i := by
        rcases Nat.lt_or_ge i s.jobs.length with h1 | h1
        · rw [List.getElem?_eq_getElem h1] at hj; cases hj
        · rw [hI.jobs] at h1; exact h1
      have htake : reqs.take i = reqs := List.take_of_length_le hge
      refine ⟨hI.jobs, hI.nonempty, hI.acct, hI.doneOk, hI.alive, ?_, ?_, ?_, ?_, ?_⟩
      · intro k hk; cases hk
      · intro b hb; exact hsf
      · intro b hb; cases hb
      · intro b hb
        rcases hb with hb | hb
        · injection hb with hb; subst hb
          exact ⟨fun hc => (by cases hc), fun _ => ⟨by rw [hcop, htake], any_take_false (by rw [← htake]; exact hok)⟩⟩
        · cases hb
      · intro o ho; cases ho
    | some r =>
      rw [hj] at h
      simp only at h
      have hi : i < s.jobs.length := by
        rcases Nat.lt_or_ge i s.jobs.length with h1 | h1
        · exact h1
        · rw [List.getElem?_eq_none h1] at hj; cases hj
      have hir : i < reqs.length := by rw [← hI.jobs]; exact hi
      have hrq : reqs[i]? = some r := by rw [← hI.jobs]; exact hj
      have hrmem : r ∈ reqs := List.mem_of_getElem? hrq
      cases hl : lookupDone s.done r with
      | none => rw [hl] at h; cases h
      | some b =>
        rw [hl] at h
        have hb : b = !fails r := hI.doneOk _ (lookupDone_mem hl)
        cases b with
        | true =>
          injection h with h; subst h
          have hfr : fails r = false := by cases hf : fails r <;> simp [hf] at hb ⊢
          have htk : reqs.take (i + 1) = reqs.take i ++ [r] := by
            rw [List.take_add_one, hrq]; rfl
          refine ⟨hI.jobs, hI.nonempty, hI.acct, hI.doneOk, hI.alive, ?_, ?_, ?_, ?_, ?_⟩
          · intro k hk
            split at hk
            · injection hk with hk; subst hk
              refine ⟨hsf, by simp only; rw [hcop, htk], by omega, ?_⟩
              intro q hq
              rw [htk] at hq
              rcases List.mem_append.mp hq with hq | hq
              · exact hok q hq
              · simp only [List.mem_singleton] at hq; subst hq; exact hfr
            · cases hk
          · intro b' hb'
            split at hb'
            · cases hb'
            · exact hsf
          · intro b' hb'
            split at hb' <;> cases hb'
          · intro b' hb'
            split at hb'
            · rcases hb' with hb' | hb' <;> cases hb'
            · next hlast =>
              rcases hb' with hb' | hb'
              · injection hb' with hb'; subst hb'
                have hlen : i + 1 = reqs.length := by rw [hI.jobs] at hlast; omega
                have hall : reqs.take (i + 1) = reqs := by rw [hlen]; exact List.take_length
                refine ⟨fun hc => (by cases hc), fun _ => ⟨by simp only; rw [hcop, ← htk, hall], ?_⟩⟩
                apply any_take_false
                intro q hq
                rw [← hall, htk] at hq
                rcases List.mem_append.mp hq with hq | hq
                · exact hok q hq
                · simp only [List.mem_singleton] at hq; subst hq; exact hfr
              · cases hb'
          · intro o ho
            split at ho <;> cases ho
        | false =>
          injection h with h; subst h
          have hfr : fails r = true := by cases hf : fails r <;> simp [hf] at hb ⊢
          refine ⟨hI.jobs, hI.nonempty, hI.acct, hI.doneOk, hI.alive, ?_, ?_, ?_, ?_, ?_⟩
          · intro k hk; cases hk
          · intro b' hb'; exact hsf
          · intro b' hb'; cases hb'
          · intro b' hb'
            rcases hb' with hb' | hb'
            · injection hb' with hb'; subst hb'
              exact ⟨fun _ => List.any_eq_true.mpr ⟨r, hrmem, hfr⟩, fun hc => (by cases hc)⟩
            · cases hb'
          · intro o ho; cases ho
  | exiting b =>
    rw [hm] at h; injection h with h; subst h
    refine ⟨hI.jobs, hI.nonempty, hI.acct, hI.doneOk, ?_, ?_, ?_, ?_, ?_, ?_⟩
    · intro hc; cases hc
    · intro k hk; cases hk
    · intro b' hb'; cases hb'
    · intro b' hb'; rfl
    · intro b' hb'
      rcases hb' with hb' | hb'
      · cases hb'
      · injection hb' with hb'; subst hb'; exact hI.flag b (Or.inl hm)
    · intro o ho; cases ho
  | joining b =>
    rw [hm] at h
    simp only at h
    split at h
    · next hall =>
      injection h with h; subst h
      refine ⟨hI.jobs, hI.nonempty, hI.acct, hI.doneOk, hI.alive, ?_, ?_, ?_, ?_, ?_⟩
      · intro k hk; cases hk
      · intro b' hb'; cases hb'
      · intro b' hb'; cases hb'
      · intro b' hb'; rcases hb' with hb' | hb' <;> cases hb'
      · intro o ho
        injection ho with ho
        obtain ⟨f1, f2⟩ := hI.flag b (Or.inr hm)
        refine ⟨?_, ?_⟩
        · rw [← ho]
          unfold expected
          cases b with
          | true => simp [f1 rfl]
          | false => obtain ⟨c1, c2⟩ := f2 rfl; simp [c1, c2]
        · intro w hw
          rw [List.all_eq_true] at hall
          have := hall w hw
          simpa using this
    · cases h
  | finished o => rw [hm] at h; cases h

theorem xinv_step (fails : Req → Bool) (reqs : List Req) (s s' : XSys) (t : Nat) (hI : XInv fails reqs s)
    (h : xstep fails s t = some s') : XInv fails reqs s' := by
  unfold xstep at h
  split at h
  · exact xinv_main fails reqs s s' hI h
  · exact xinv_worker fails reqs s s' _ hI h

theorem xinv_run (fails : Req → Bool) (reqs : List Req) (s : XSys) (sched : List Nat) (hI : XInv fails reqs s) :
    XInv fails reqs (xrun fails s sched) := by
  induction sched generalizing s with
  | nil => exact hI
  | cons t ts ih =>
    simp only [xrun]
    cases hs : xstep fails s t with
    | none => simpa using ih s hI
    | some s' => simpa using ih s' (xinv_step fails reqs s s' t hI hs)


theorem xsumL_pos_of_mem (r : Req) (l : List XW) (h : 0 < xsumL (running r) l) : ∃ w ∈ l, ∃ q, w = .run q := by
  induction l with
  | nil => simp [xsumL] at h
  | cons w ws ih =>
    simp only [xsumL] at h
    cases w with
    | run q => exact ⟨_, List.mem_cons_self, q, rfl⟩
    | idle =>
      simp only [running, Nat.zero_add] at h
      obtain ⟨w', hw', q, hq⟩ := ih h
      exact ⟨w', List.mem_cons_of_mem _ hw', q, hq⟩
    | exited =>
      simp only [running, Nat.zero_add] at h
      obtain ⟨w', hw', q, hq⟩ := ih h
      exact ⟨w', List.mem_cons_of_mem _ hw', q, hq⟩

/-- **no reachable state of the executor strategy is stuck with a thread left behind** -/
theorem X_terminal (fails : Req → Bool) (reqs : List Req) (s : XSys) (hI : XInv fails reqs s)
    (hq : ∀ t, xstep fails s t = none) : (∃ o, s.main = .finished o) ∧ ∀ w ∈ s.workers, w = .exited := by
  -- what "no worker can move" means for each worker
  have hw : ∀ w ∈ s.workers, w = .exited ∨ (w = .idle ∧ s.queue = [] ∧ s.shutdown = false) := by
    intro w hwm
    obtain ⟨j, hjl, hj⟩ := List.mem_iff_getElem.mp hwm
    have hj' : s.workers[j]? = some w := by rw [List.getElem?_eq_getElem hjl, hj]
    have hs := hq (j + 1)
    simp only [xstep, Nat.add_one_ne_zero, if_false, Nat.add_sub_cancel, xWorker, hj'] at hs
    cases w with
    | idle =>
      simp only at hs
      cases hqq : s.queue with
      | nil =>
        rw [hqq] at hs
        simp only at hs
        cases hsd : s.shutdown with
        | false => exact Or.inr ⟨rfl, rfl, rfl⟩
        | true => rw [hsd] at hs; simp at hs
      | cons r rest => rw [hqq] at hs; cases hs
    | run r => cases hs
    | exited => exact Or.inl rfl
  have h0 := hq 0
  simp only [xstep, if_true, xMain] at h0
  cases hm : s.main with
  | wait i =>
    exfalso
    rw [hm] at h0
    simp only at h0
    obtain ⟨hsf, _, _, _⟩ := hI.shutW i hm
    cases hj : s.jobs[i]? with
    | none => rw [hj] at h0; cases h0
    | some r =>
      rw [hj] at h0
      simp only at h0
      cases hl : lookupDone s.done r with
      | some b => rw [hl] at h0; cases b <;> cases h0
      | none =>
        -- the job is neither done nor running, so it is queued; but then an idle worker could take it
        have hrmem : r ∈ reqs := by rw [← hI.jobs]; exact List.mem_of_getElem? hj
        have hacct := hI.acct r
        rw [lookupDone_none hl] at hacct
        have hcnt : 0 < reqs.count r := List.count_pos_iff.mpr hrmem
        have hnorun : xsumL (running r) s.workers = 0 := by
          rcases Nat.eq_zero_or_pos (xsumL (running r) s.workers) with h | h
          · exact h
          · obtain ⟨w, hwm, q, hwq⟩ := xsumL_pos_of_mem r _ h
            rcases hw w hwm with h1 | ⟨h1, _, _⟩ <;> rw [hwq] at h1 <;> cases h1
        have hqne : 0 < s.queue.count r := by omega
        obtain ⟨w, hwm⟩ := List.exists_mem_of_length_pos hI.nonempty
        rcases hw w hwm with h1 | ⟨_, h2, _⟩
        · exact hI.alive hsf w hwm h1
        · rw [h2] at hqne; simp at hqne
  | exiting b => rw [hm] at h0; cases h0
  | joining b =>
    exfalso
    rw [hm] at h0
    simp only at h0
    have hsd : s.shutdown = true := hI.shutJ b hm
    have hall : ∀ w ∈ s.workers, w = .exited := by
      intro w hwm
      rcases hw w hwm with h1 | ⟨_, _, h3⟩
      · exact h1
      · rw [hsd] at h3; cases h3
    have : s.workers.all (· == .exited) = true := by
      rw [List.all_eq_true]; intro w hwm; rw [hall w hwm]; rfl
    rw [this] at h0; simp at h0
  | finished o => exact ⟨⟨o, rfl⟩, (hI.fin o hm).2⟩


/-- a run in which every scheduled thread was able to move -/
inductive XExec (fails : Req → Bool) : XSys → List Nat → XSys → Prop
  | nil (s : XSys) : XExec fails s [] s
  | cons {s s' s'' : XSys} (t : Nat) (ts : List Nat) : xstep fails s t = some s' → XExec fails s' ts s'' → XExec fails s (t :: ts) s''

/-- every execution of the executor strategy is finite, with an explicit bound -/
theorem X_bound (fails : Req → Bool) (s s' : XSys) (sched : List Nat) (h : XExec fails s sched s') :
    sched.length + xmu s' ≤ xmu s := by
  induction h with
  | nil => simp
  | cons t ts hs _ ih =>
    have := X_measure fails _ _ t hs
    simp only [List.length_cons]; omega

/-- **C16 for the executor strategy, end to end**: every non-empty list of ranges, every pool size, every set of failing
    requests, every schedule of the pool's threads: once no thread can move, the caller has left the `with` block -
    having raised exactly when some request failed, and otherwise having copied every block exactly once in submission
    order - and every pool thread has exited -/
theorem C16_executor (fails : Req → Bool) (reqs : List Req) (threads : Nat) (hr : reqs ≠ []) (ht : 0 < threads) (sched : List Nat) :
    let s := xrun fails (xinit reqs threads) sched
    (∀ t, xstep fails s t = none) →
      s.main = .finished (if reqs.any fails then .raised else .data reqs) ∧ ∀ w ∈ s.workers, w = .exited := by
  intro s hq
  have hI : XInv fails reqs s := xinv_run fails reqs _ sched (xinv_init fails reqs threads hr ht)
  obtain ⟨⟨o, ho⟩, hall⟩ := X_terminal fails reqs s hI hq
  refine ⟨?_, hall⟩
  rw [ho, (hI.fin o ho).1]; rfl

/-- non-vacuity: two ranges on a pool of two threads, the second request failing: the schedule below ends in a state
    where nothing can move, the caller has raised and both threads have exited -/
example : let fails : Req → Bool := fun r => r.offset == 200
    let s := xrun fails (xinit [⟨100, 10⟩, ⟨200, 10⟩] 2) [1, 2, 1, 2, 0, 0, 0, 1, 2, 0]
    s.main = .finished .raised ∧ s.workers = [.exited, .exited] := by
  decide

end LasModel.Props.C16X
