/-
C11 — scaled coordinates obey x = X·scale + offset and never wrap.
Exact rational arithmetic (core `Rat`); Mathlib is imported for `linarith`/`field_simp` only.
-/
import Mathlib.Tactic.Linarith
import Mathlib.Tactic.FieldSimp
import Mathlib.Tactic.Ring
import Mathlib.Algebra.Order.Field.Rat
import LasModel.Model.Scaling

namespace LasModel.Props.C11
open LasModel.Scaling

/-- rounding to nearest (ties to even) moves a value by at most one half -/
theorem round_err (q : Rat) : |q - (roundHalfEven q : Rat)| ≤ 1 / 2 := by
  unfold roundHalfEven
  have h1 := Rat.floor_le q
  have h2 := Rat.lt_floor_add_one q
  simp only
  push_cast at h2
  split
  · rw [abs_le]; constructor <;> linarith
  · split
    · rw [abs_le]; constructor <;> push_cast <;> linarith
    · split
      · rw [abs_le]; constructor <;> linarith
      · rw [abs_le]; constructor <;> push_cast <;> linarith

/-- rounding keeps a value between two integers between them -/
theorem round_bounds (q : Rat) (lo hi : Int) (hlo : (lo : Rat) ≤ q) (hhi : q ≤ (hi : Rat)) :
    lo ≤ roundHalfEven q ∧ roundHalfEven q ≤ hi := by
  have hf1 : lo ≤ q.floor := Rat.le_floor_iff.mpr hlo
  have hfl := Rat.floor_le q
  have hf2 : q.floor ≤ hi := by
    have : (q.floor : Rat) ≤ (hi : Rat) := le_trans hfl hhi
    exact_mod_cast this
  unfold roundHalfEven
  simp only
  split
  · exact ⟨hf1, hf2⟩
  · -- the fractional part is at least one half, hence floor q < hi
    rename_i hd
    have hlt : q.floor < hi := by
      by_contra hcon
      have heq : q.floor = hi := by omega
      have : q - (q.floor : Rat) ≤ 0 := by rw [heq]; linarith
      have : q - (q.floor : Rat) < 1 / 2 := by linarith
      exact hd this
    split
    · exact ⟨by omega, by omega⟩
    · split
      · exact ⟨hf1, hf2⟩
      · exact ⟨by omega, by omega⟩

theorem apply_remove_err (s o v : Rat) (hs : 0 < s) : |apply s o (remove s o v) - v| ≤ s / 2 := by
  unfold apply remove
  have h := round_err ((v - o) / s)
  have hne : s ≠ 0 := ne_of_gt hs
  have key : (roundHalfEven ((v - o) / s) : Rat) * s + o - v = -(s * ((v - o) / s - (roundHalfEven ((v - o) / s) : Rat))) := by
    field_simp; ring
  rw [key, abs_neg]
  rw [abs_le] at h ⊢
  constructor <;> nlinarith [h.1, h.2, hs]

/-- **assignment**: a finite coordinate inside the representable window is stored as the
    nearest representable integer under the scaling in force: the error is at most half a step
    and the stored value fits 32 bits -/
theorem C11_assign (s o v : Rat) (hs : 0 < s)
    (hw : v ≤ apply s o INT_MAX ∧ apply s o INT_MIN ≤ v) :
    |apply s o (remove s o v) - v| ≤ s / 2 ∧ INT_MIN ≤ remove s o v ∧ remove s o v ≤ INT_MAX := by
  refine ⟨apply_remove_err s o v hs, ?_⟩
  unfold remove
  have hne : s ≠ 0 := ne_of_gt hs
  unfold apply at hw
  apply round_bounds
  · rw [le_div_iff₀ hs]; linarith [hw.2]
  · rw [div_le_iff₀ hs]; linarith [hw.1]

/-- a value outside the window is refused (OverflowError), nothing is stored -/
theorem C11_refused (sc : Scal) (st : State) (a : Nat) (vs : List Rat)
    (h : ∃ v ∈ vs, v > apply (sc.sc a) (sc.off a) INT_MAX ∨ v < apply (sc.sc a) (sc.off a) INT_MIN) :
    assignWith sc st a vs = .error .overflow := by
  unfold assignWith inWindow
  obtain ⟨v, hv, hr⟩ := h
  have : (vs.all fun v => decide (v ≤ apply (sc.sc a) (sc.off a) INT_MAX) && decide (apply (sc.sc a) (sc.off a) INT_MIN ≤ v)) = false := by
    rw [List.all_eq_false]
    refine ⟨v, hv, ?_⟩
    rcases hr with hr | hr
    · simp; intro h1; exact absurd h1 (not_le.mpr hr)
    · simp; intro _; exact hr
  simp [this]

/-- every stored integer fits in 32 bits -/
def AllFit (pts : List (List Int)) : Prop := ∀ c ∈ pts, ∀ x ∈ c, fits x = true

def PosScal (c : Scal) : Prop := ∀ a, 0 < c.sc a

theorem allFit_set (pts : List (List Int)) (a : Nat) (c : List Int) (hp : AllFit pts) (hc : ∀ x ∈ c, fits x = true) :
    AllFit (setCol pts a c) := by
  intro c' hc' x hx
  unfold setCol at hc'
  rcases List.mem_or_eq_of_mem_set hc' with h | h
  · exact hp c' h x hx
  · subst h; exact hc x hx

theorem assign_fits (sc : Scal) (hpos : PosScal sc) (st : State) (a : Nat) (vs : List Rat) (pts : List (List Int))
    (hp : AllFit st.pts) (h : assignWith sc st a vs = .ok pts) : AllFit pts := by
  unfold assignWith at h
  split at h
  · rename_i hw
    injection h with h
    subst h
    apply allFit_set _ _ _ hp
    intro x hx
    obtain ⟨v, hv, rfl⟩ := List.mem_map.mp hx
    unfold inWindow at hw
    have := (List.all_eq_true.mp hw) v hv
    simp only [Bool.and_eq_true, decide_eq_true_eq] at this
    have hb := (C11_assign _ _ v (hpos a) this).2
    unfold fits; simp [hb.1, hb.2]
  · cases h

theorem rescale_fits (cur new : Scal) (pts pts' : List (List Int)) (h : rescale cur new pts = .ok pts') : AllFit pts' := by
  unfold rescale at h
  simp only at h
  split at h
  · rename_i hall
    injection h with h
    subst h
    intro c hc x hx
    exact (List.all_eq_true.mp ((List.all_eq_true.mp hall) c hc)) x hx
  · cases h

/-- **never wraps**: whatever the operation and whether it is accepted or refused, every
    stored coordinate still fits 32 bits -/
theorem C11_inv_step (st : State) (op : Op) (hp : AllFit st.pts) (hh : PosScal st.hdr) (hr : PosScal st.rsc) :
    AllFit (step st op).1.pts := by
  cases op with
  | hdrEditScale a v => exact hp
  | hdrEditOffset a v => exact hp
  | hdrRebindScales s => exact hp
  | hdrRebindOffsets o => exact hp
  | assignLas a vs =>
    simp only [step]
    cases ha : assignWith st.hdr st a vs with
    | error e => exact hp
    | ok pts => exact assign_fits _ hh st a vs pts hp ha
  | assignRec a vs =>
    simp only [step]
    cases ha : assignWith st.rsc st a vs with
    | error e => exact hp
    | ok pts => exact assign_fits _ hr st a vs pts hp ha
  | changeScaling s o =>
    simp only [step]
    cases ha : rescale st.rsc ⟨s.getD st.rsc.s, o.getD st.rsc.o⟩ st.pts with
    | error e => exact hp
    | ok pts => exact rescale_fits _ _ _ _ ha

/-- a refused operation never changes a stored integer -/
theorem C11_refused_keeps (st : State) (op : Op) (h : (step st op).2 = false) : (step st op).1.pts = st.pts := by
  cases op with
  | hdrEditScale a v => rfl
  | hdrEditOffset a v => rfl
  | hdrRebindScales s => rfl
  | hdrRebindOffsets o => rfl
  | assignLas a vs =>
    simp only [step] at h ⊢
    cases ha : assignWith st.hdr st a vs with
    | error e => rfl
    | ok pts => simp [ha] at h
  | assignRec a vs =>
    simp only [step] at h ⊢
    cases ha : assignWith st.rsc st a vs with
    | error e => rfl
    | ok pts => simp [ha] at h
  | changeScaling s o =>
    simp only [step] at h ⊢
    cases ha : rescale st.rsc ⟨s.getD st.rsc.s, o.getD st.rsc.o⟩ st.pts with
    | error e => rfl
    | ok pts => simp [ha] at h

/-- what is presented is X·scale + offset of the stored integers under the record's current
    scaling -/
theorem C11_present (st : State) (a : Nat) :
    present st a = (st.col a).map (apply (st.rsc.sc a) (st.rsc.off a)) ∧
    ∀ s o : Rat, ∀ x : Int, apply s o x = (x : Rat) * s + o := ⟨rfl, fun _ _ _ => rfl⟩

theorem rescale_col (cur new : Scal) (pts pts' : List (List Int)) (h : rescale cur new pts = .ok pts') (a : Nat) (ha : a < 3) :
    pts'.getD a [] = (pts.getD a []).map fun x => remove (new.sc a) (new.off a) (apply (cur.sc a) (cur.off a) x) := by
  unfold rescale at h
  simp only at h
  split at h
  · injection h with h
    subst h
    have : a = 0 ∨ a = 1 ∨ a = 2 := by omega
    rcases this with h | h | h <;> subst h <;> simp [List.range, List.range.loop]
  · cases h

/-- **writing**: the file carries the header's scaling, and on every axis each written
    coordinate equals the one presented just before the write to within half a (header) step and
    fits 32 bits — or the write raises; it never wraps.  `writeOut` is a function of the state:
    the caller's records are left exactly as they were. -/
theorem C11_write (st : State) (hh : PosScal st.hdr) (hp : AllFit st.pts) (sc : Scal) (pts' : List (List Int))
    (h : writeOut st = .ok (sc, pts')) (a : Nat) (ha : a < 3) :
    sc = st.hdr ∧ AllFit pts' ∧
    List.Forall₂ (fun (w : Int) (p : Rat) => |apply (st.hdr.sc a) (st.hdr.off a) w - p| ≤ st.hdr.sc a / 2)
      (pts'.getD a []) (present st a) := by
  unfold writeOut at h
  split at h
  · rename_i heq
    injection h with h
    injection h with h1 h2
    subst h1 h2
    refine ⟨rfl, hp, ?_⟩
    unfold present State.col
    rw [heq]
    have hs := hh a
    induction st.pts.getD a [] with
    | nil => exact List.Forall₂.nil
    | cons x xs ih =>
      simp only [List.map_cons]
      exact List.Forall₂.cons (by simp; linarith) ih
  · cases hr : rescale st.rsc st.hdr st.pts with
    | error e => simp [hr] at h
    | ok p =>
      simp only [hr] at h
      injection h with h
      injection h with h1 h2
      subst h1 h2
      refine ⟨rfl, rescale_fits _ _ _ _ hr, ?_⟩
      rw [rescale_col _ _ _ _ hr a ha]
      unfold present State.col
      have hs := hh a
      induction st.pts.getD a [] with
      | nil => exact List.Forall₂.nil
      | cons x xs ih =>
        simp only [List.map_cons]
        exact List.Forall₂.cons (apply_remove_err _ _ _ hs) ih

/-- **streaming scale-aware records into a writer / appender with another scaling**
    (`LasWriter.write_points`, `LasAppender.append_points`): same statement with the writer's
    scaling in the role of the header's; the records handed in are restored afterwards -/
theorem C11_stream (recSc wSc : Scal) (hw : PosScal wSc) (pts pts' : List (List Int))
    (h : rescale recSc wSc pts = .ok pts') (a : Nat) (ha : a < 3) :
    AllFit pts' ∧
    List.Forall₂ (fun (w : Int) (x : Int) => |apply (wSc.sc a) (wSc.off a) w - apply (recSc.sc a) (recSc.off a) x| ≤ wSc.sc a / 2)
      (pts'.getD a []) (pts.getD a []) := by
  refine ⟨rescale_fits _ _ _ _ h, ?_⟩
  rw [rescale_col _ _ _ _ h a ha]
  have hs := hw a
  induction pts.getD a [] with
  | nil => exact List.Forall₂.nil
  | cons x xs ih =>
    simp only [List.map_cons]
    exact List.Forall₂.cons (apply_remove_err _ _ _ hs) ih

/-- non-vacuity: scale 1 → 1/10 with X = 2·10⁹ cannot be represented: the write is refused -/
example : writeOut ⟨⟨[1/10, 1, 1], [0, 0, 0]⟩, ⟨[1, 1, 1], [0, 0, 0]⟩, false, false, [[2000000000], [0], [0]]⟩ = .error .overflow := by
  decide +kernel
example : remove (1/4) 1 11 = 40 ∧ remove (1/2) 0 (5/4) = 2 ∧ remove (1/2) 0 (7/4) = 4 := by decide +kernel

end LasModel.Props.C11
