/-
C04 / C06 / C19 - "points of a different point format are refused": what the refusal rests on.
-/
import LasModel.Model.FormatEq

namespace LasModel.Props.C04Fmt
open LasModel.FormatEq

/-- every field of the named tuple is known to the model (a field added to `DimensionInfo` breaks this, not silently the theorems below) -/
theorem tuple_fields_known : Gen.FormatEq.tupleFields = allFields := by decide

/-- `DimensionInfo.__eq__` compares every field of the tuple -/
theorem eq_compares_every_field : ∀ f ∈ Gen.FormatEq.tupleFields, f ∈ Gen.FormatEq.dimFields := by decide

theorem dimEq_eq (fs : List String) (h : ∀ f ∈ allFields, f ∈ fs) (a b : XDim) (he : dimEq fs a b = true) : a = b := by
  unfold dimEq at he
  rw [List.all_eq_true] at he
  have g := fun f hf => he f (h f hf)
  have h1 := g "name" (by decide)
  have h2 := g "kind" (by decide)
  have h3 := g "num_bits" (by decide)
  have h4 := g "num_elements" (by decide)
  have h5 := g "is_standard" (by decide)
  have h6 := g "description" (by decide)
  have h7 := g "offsets" (by decide)
  have h8 := g "scales" (by decide)
  simp only [fieldEq, beq_iff_eq] at h1 h2 h3 h4 h5 h6 h7 h8
  cases a; cases b
  simp_all

theorem zip_all_eq {α} (p : α → α → Bool) (hp : ∀ a b, p a b = true → a = b) :
    ∀ (xs ys : List α), xs.length = ys.length → ((xs.zip ys).all fun q => p q.1 q.2) = true → xs = ys
  | [], [], _, _ => rfl
  | [], _ :: _, h, _ => by simp at h
  | _ :: _, [], h, _ => by simp at h
  | x :: xs, y :: ys, h, ha => by
    simp only [List.zip_cons_cons, List.all_cons, Bool.and_eq_true] at ha
    have := hp x y ha.1
    have ih := zip_all_eq p hp xs ys (by simpa using h) ha.2
    rw [this, ih]

/-- **Records are accepted only if their point format is the writer's in every respect**: same id, the same extra dimensions in the same
    order - name, element kind, width, number of elements, description, scales, offsets. For every pair of formats. -/
theorem C04_format_identity (ida idb : Nat) (xs ys : List XDim) (h : codeEq ida idb xs ys = true) : ida = idb ∧ xs = ys := by
  unfold codeEq formatEq at h
  have hc : Gen.FormatEq.comparesId = true := rfl
  have hp : Gen.FormatEq.pairsAll = true := rfl
  rw [hc, hp] at h
  simp only [Bool.not_true, Bool.false_or, Bool.and_eq_true, beq_iff_eq] at h
  obtain ⟨⟨hid, hlen⟩, hall⟩ := h
  refine ⟨hid, zip_all_eq _ (fun a b he => dimEq_eq _ ?_ a b he) xs ys hlen hall⟩
  intro f hf
  exact eq_compares_every_field f (tuple_fields_known ▸ hf)

/-- hence the records accepted have the file's record length: nothing the session stores can be re-cut at another length -/
theorem C04_accepted_same_length (ida idb : Nat) (xs ys : List XDim) (h : codeEq ida idb xs ys = true) :
    ida = idb ∧ extraLen xs = extraLen ys := by
  obtain ⟨h1, h2⟩ := C04_format_identity ida idb xs ys h
  exact ⟨h1, by rw [h2]⟩

theorem mem_zip_self {α} : ∀ (xs : List α) (p q : α), (p, q) ∈ xs.zip xs → p = q
  | [], _, _, h => by simp at h
  | x :: xs, p, q, h => by
    simp only [List.zip_cons_cons, List.mem_cons, Prod.mk.injEq] at h
    rcases h with ⟨h1, h2⟩ | h
    · rw [h1, h2]
    · exact mem_zip_self xs p q h

/-- a format is accepted by a writer of that format -/
theorem C04_format_refl (id : Nat) (xs : List XDim) : codeEq id id xs xs = true := by
  unfold codeEq formatEq dimEq
  have hr : ∀ (f : String) (a : XDim), fieldEq f a a = true := by
    intro f a; unfold fieldEq; split <;> simp
  simp only [beq_self_eq_true, Bool.or_true, Bool.and_self, Bool.true_and, List.all_eq_true]
  intro pq hpq f _
  obtain ⟨p, q⟩ := pq
  have := mem_zip_self xs p q hpq
  subst this
  exact hr f p

/-- the equality of the tree before the repair (`num_elements` not compared) took an extra dimension of two 32-bit elements for one of a
    single 64-bit element of the same name: records of that other format were accepted -/
theorem D04_old_equality_conflates :
    let old := ["name", "kind", "num_bits", "is_standard", "description", "offsets", "scales"]
    let a : XDim := ⟨"v", 1, 64, 2, false, "", none, none⟩
    let b : XDim := ⟨"v", 1, 64, 1, false, "", none, none⟩
    formatEq true true old 0 0 [a] [b] = true ∧ a ≠ b := by decide

end LasModel.Props.C04Fmt
