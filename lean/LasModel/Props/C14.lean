/-
C14 — compression is transparent for any conforming LAZ backend.
-/
import LasModel.Model.Compress

namespace LasModel.Props.C14
open LasModel.Compress Gen.Compression

/-- an explicit do_compress wins for `laspy.open` and for streams; otherwise a path's
    extension (case-insensitively), or for a stream an explicitly passed backend -/
theorem C14_decision_open (dest : Dest) (dc : Option Bool) (bg : Bool) :
    (∀ b, dc = some b → openDecision dest dc bg = b) ∧
    (dc = none → ∀ ext, dest = .path ext → openDecision dest dc bg = (lower ext == ".laz")) ∧
    (dc = none → dest = .stream → openDecision dest dc bg = bg) := by
  refine ⟨?_, ?_, ?_⟩
  · intro b h; subst h; cases dest <;> simp [openDecision]
  · intro h ext hd; subst h hd; simp [openDecision]
  · intro h hd; subst h hd; simp [openDecision]

theorem C14_decision_write (dest : Dest) (dc : Option Bool) (bg : Bool) :
    (∀ ext, dest = .path ext → writeDecision dest dc bg = (lower ext == ".laz")) ∧
    (dest = .stream → ∀ b, dc = some b → writeDecision dest dc bg = b) ∧
    (dest = .stream → dc = none → writeDecision dest dc bg = bg) := by
  refine ⟨?_, ?_, ?_⟩
  · intro ext hd; subst hd; rfl
  · intro hd b h; subst hd h; rfl
  · intro hd h; subst hd h; rfl

/-- the extension test is case-insensitive -/
example : lower ".LAZ" = ".laz" ∧ lower ".Laz" = ".laz" ∧ lower ".las" ≠ ".laz" := by decide +kernel

/-- the compressed bit (generated from `_compression/format.py`): for every uncompressed
    point format id below 64 — a fortiori 0..10 -/
theorem C14_bit (f : Nat) (hf : f < 64) :
    is_point_format_compressed (uncompressed_id_to_compressed f) = true ∧
    compressed_id_to_uncompressed (uncompressed_id_to_compressed f) = f ∧
    is_point_format_compressed f = false ∧
    uncompressed_id_to_compressed f < 256 := by
  have : ∀ g ∈ List.range 64,
      is_point_format_compressed (uncompressed_id_to_compressed g) = true ∧
      compressed_id_to_uncompressed (uncompressed_id_to_compressed g) = g ∧
      is_point_format_compressed g = false ∧ uncompressed_id_to_compressed g < 256 := by decide +kernel
  exact this f (by simpa using hf)

theorem count_pop (l : List V) : countLasZip (popLasZip l) = countLasZip l - 1 := by
  induction l with
  | nil => rfl
  | cons v vs ih =>
    by_cases h : v.isLasZip = true
    · simp [popLasZip, countLasZip, h]
    · have e1 : popLasZip (v :: vs) = v :: popLasZip vs := by simp [popLasZip, h]
      have e2 : ∀ l : List V, countLasZip (v :: l) = countLasZip l := by
        intro l; simp [countLasZip, List.filter_cons, h]
      rw [e1, e2, e2, ih]

/-- a compressed file carries exactly one LasZip record and an uncompressed one none,
    whatever the caller's list held (at most one) -/
theorem C14_one_vlr (compress : Bool) (vlrs : List V) (h : countLasZip vlrs ≤ 1) :
    countLasZip (writtenVlrs compress vlrs) = if compress then 1 else 0 := by
  unfold writtenVlrs
  have hp := count_pop vlrs
  cases compress
  · simp only [Bool.false_eq_true, if_false]; omega
  · simp only [if_true]
    unfold countLasZip at *
    simp only [List.filter_append, List.length_append]
    have : ([lasZip].filter (·.isLasZip)).length = 1 := rfl
    omega

/-- it is never shown among the user's VLRs after reading, also for a file without points -/
theorem C14_hidden (vlrs : List V) (h : countLasZip vlrs ≤ 1) :
    countLasZip (presentedVlrs true (writtenVlrs true vlrs)) = 0 := by
  unfold presentedVlrs
  simp only [if_true]
  rw [count_pop, C14_one_vlr true vlrs h]
  rfl

/-- nor duplicated when what was read is written again (compressed or not) -/
theorem C14_no_dup (c : Bool) (vlrs : List V) (h : countLasZip vlrs ≤ 1) :
    countLasZip (writtenVlrs c (presentedVlrs true (writtenVlrs true vlrs))) = if c then 1 else 0 := by
  apply C14_one_vlr
  rw [C14_hidden vlrs h]
  omega

theorem pop_no_laszip (l : List V) (h : countLasZip l = 0) : popLasZip l = l := by
  induction l with
  | nil => rfl
  | cons v vs ih =>
    unfold countLasZip at h
    by_cases hv : v.isLasZip = true
    · simp [List.filter_cons, hv] at h
    · simp only [List.filter_cons, hv, Bool.false_eq_true, if_false] at h
      simp only [popLasZip, hv, Bool.false_eq_true, if_false]
      rw [ih h]

/-- the user's other VLRs are the same, in order, through a compressed write/read -/
theorem C14_user_vlrs (vlrs : List V) (h : countLasZip vlrs = 0) :
    presentedVlrs true (writtenVlrs true vlrs) = vlrs := by
  unfold presentedVlrs writtenVlrs
  simp only [if_true]
  rw [pop_no_laszip vlrs h]
  have : ∀ l : List V, countLasZip l = 0 → popLasZip (l ++ [lasZip]) = l := by
    intro l hl
    induction l with
    | nil => rfl
    | cons v vs ih =>
      unfold countLasZip at hl
      by_cases hv : v.isLasZip = true
      · simp [List.filter_cons, hv] at hl
      · simp only [List.filter_cons, hv, Bool.false_eq_true, if_false] at hl
        simp only [List.cons_append, popLasZip, hv, Bool.false_eq_true, if_false]
        rw [ih hl]
  exact this vlrs h

/-- **transparency under the backend contract**: whatever the chunking on the writing side and
    whatever follows the compressed stream (chunk table, EVLRs), the first `n` points read back
    are the first `n` points written — the same slice the uncompressed reader returns -/
theorem C14_transparent (cd : Codec) (hl : CodecLaws cd) (chunks : List (List Bytes.Bytes)) (rest : Bytes.Bytes) (n : Nat)
    (hn : n ≤ chunks.flatten.length) :
    cd.decompress (cd.compress chunks ++ rest) n = chunks.flatten.take n ∧
    cd.decompress (cd.compress [chunks.flatten] ++ rest) n = cd.decompress (cd.compress chunks ++ rest) n := by
  refine ⟨hl chunks rest n hn, ?_⟩
  rw [hl chunks rest n hn, hl [chunks.flatten] rest n (by simpa using hn)]
  simp

end LasModel.Props.C14
