/-
C15 — COPC queries return exactly the points the octree stores in the box and levels.
Traversal part (core Lean only): invariants of `loop`, the recursive reading `collect`, the
selected-node characterisation, malformed hierarchies. Geometry and arithmetic: Props/C15Geo.lean.
-/
import LasModel.Model.Copc
namespace LasModel.Props.C15
open LasModel.Copc Gen.Copc

/-- every binding of the dictionary comes from the root page or from a page of the file -/
def Sub (H : Hier) (es : Page) : Prop := ∀ x ∈ es, x ∈ H.root ∨ ∃ p ∈ H.pages, x ∈ p.2

theorem lookup_mem {es : Page} {k : Key} {e : Entry} (h : lookup es k = some e) : (k, e) ∈ es := by
  induction es with
  | nil => cases h
  | cons x xs ih =>
    obtain ⟨j, e'⟩ := x
    simp only [lookup] at h
    split at h
    · next hj => cases h; subst hj; exact List.mem_cons_self
    · exact List.mem_cons_of_mem _ (ih h)

theorem mem_refsOf {p : Page} {k : Key} {e : Entry} (h : (k, e) ∈ p) (hc : e.count = -1) :
    (e.offset, e.byteSize) ∈ refsOf p := by
  induction p with
  | nil => cases h
  | cons x xs ih =>
    simp only [refsOf]
    cases h with
    | head => simp [hc]
    | tail _ h => split <;> simp [ih h]

theorem mem_refsOfPages {ps : List (Ref × Page)} {p : Ref × Page} (hp : p ∈ ps) {r : Ref} (h : r ∈ refsOf p.2) :
    r ∈ refsOfPages ps := by
  induction ps with
  | nil => cases hp
  | cons x xs ih =>
    simp only [refsOfPages, List.mem_append]
    cases hp with
    | head => exact Or.inl h
    | tail _ hp => exact Or.inr (ih hp)

theorem sub_ref {H : Hier} {es : Page} (hs : Sub H es) {k : Key} {e : Entry} (h : lookup es k = some e)
    (hc : e.count = -1) : (e.offset, e.byteSize) ∈ allRefs H := by
  unfold allRefs
  rw [List.mem_append]
  rcases hs _ (lookup_mem h) with h1 | ⟨p, hp, h2⟩
  · exact Or.inl (mem_refsOf h1 hc)
  · exact Or.inr (mem_refsOfPages hp (mem_refsOf h2 hc))

theorem findPage_sub (ps : List (Ref × Page)) (r : Ref) : ∀ x ∈ findPage ps r, ∃ p ∈ ps, x ∈ p.2 := by
  induction ps with
  | nil => intro x hx; cases hx
  | cons p ps ih =>
    intro x hx
    simp only [findPage] at hx
    split at hx
    · exact ⟨p, List.mem_cons_self, hx⟩
    · obtain ⟨p', hp', h⟩ := ih x hx
      exact ⟨p', List.mem_cons_of_mem _ hp', h⟩

theorem sub_update {H : Hier} {es : Page} (hs : Sub H es) (r : Ref) : Sub H (update es (pageAt H r)) := by
  intro x hx
  unfold update at hx
  rw [List.mem_append, List.mem_reverse] at hx
  rcases hx with h | h
  · exact Or.inr (findPage_sub _ _ x h)
  · exact hs x h

theorem le_maxLevelOf {p : Page} {x : Key × Entry} (h : x ∈ p) : x.1.level ≤ maxLevelOf p := by
  induction p with
  | nil => cases h
  | cons y ys ih =>
    simp only [maxLevelOf]
    cases h with
    | head => omega
    | tail _ h => have := ih h; omega

theorem le_depthPages {ps : List (Ref × Page)} {p : Ref × Page} (hp : p ∈ ps) : maxLevelOf p.2 ≤ depthPages ps := by
  induction ps with
  | nil => cases hp
  | cons y ys ih =>
    simp only [depthPages]
    cases hp with
    | head => omega
    | tail _ h => have := ih h; omega

/-- a key deeper than every record of the file has no binding: the extra test in the model's loop
    never changes the outcome -/
theorem lookup_deep {H : Hier} {es : Page} (hs : Sub H es) {k : Key} (hk : depth H < k.level) : lookup es k = none := by
  cases h : lookup es k with
  | none => rfl
  | some e =>
    exfalso
    unfold depth at hk
    rcases hs _ (lookup_mem h) with h1 | ⟨p, hp, h2⟩
    · have := le_maxLevelOf h1; simp only at this; omega
    · have := le_maxLevelOf h2; have := le_depthPages hp; simp only at *; omega

/-- the guard `impossible` of the model is never taken -/
theorem C15_reachable (H : Hier) (q : Query) (st : St) (hs : Sub H st.entries) :
    loop H q st ≠ .error "impossible" := by
  fun_induction loop H q st with
  | case1 => simp
  | case2 x k rest h1 h2 ih => exact ih hs
  | case3 x k rest h1 h2 h3 ih => exact ih hs
  | case4 x k rest h1 h2 h3 h4 ih => exact ih hs
  | case5 x k rest h1 h2 h3 h4 h5 ih => exact ih hs
  | case6 => simp
  | case7 => simp
  | case8 x k rest h1 h2 h3 h4 e h5 h6 h7 h8 entries h9 ih => exact ih (sub_update hs _)
  | case9 x k rest h1 h2 h3 h4 e h5 h6 h7 h8 => exact absurd (sub_ref hs h5 h6) h8
  | case10 x k rest h1 h2 h3 h4 e h5 h6 h7 ih => exact ih hs
  | case11 x k rest h1 h2 h3 h4 e h5 h6 h7 ih => exact ih hs

/-- the recursive reading of the traversal: a node is visited when its cube overlaps, its level is not
    beyond the range and it has a record; its children are visited when it holds data -/
def collect (H : Hier) (q : Query) (es : Page) : Nat → Key → List Node
  | 0, _ => []
  | f + 1, k =>
    if q.ov k = false then []
    else if q.cut k.level = true then []
    else if depth H < k.level then []
    else match lookup es k with
      | none => []
      | some e =>
        if 0 ≤ e.count then
          addOut q [] ⟨k, e.offset, e.byteSize, e.count⟩ ++ (childrenRev k).flatMap (collect H q es f)
        else addOut q [] ⟨k, 0, 0, 0⟩

def fuelOf (H : Hier) (k : Key) : Nat := depth H + 1 - k.level

def collectAll (H : Hier) (q : Query) (es : Page) (todo : List Key) : List Node :=
  todo.flatMap (fun k => collect H q es (fuelOf H k) k)

def NoRefs (es : Page) : Prop := ∀ k e, lookup es k = some e → e.count ≠ -1

theorem addOut_eq (q : Query) (out : List Node) (n : Node) : addOut q out n = out ++ addOut q [] n := by
  unfold addOut; split <;> simp

theorem collectAll_cons (H : Hier) (q : Query) (es : Page) (k : Key) (rest : List Key) :
    collectAll H q es (k :: rest) = collect H q es (fuelOf H k) k ++ collectAll H q es rest := by
  simp [collectAll]

theorem collectAll_append (H : Hier) (q : Query) (es : Page) (a b : List Key) :
    collectAll H q es (a ++ b) = collectAll H q es a ++ collectAll H q es b := by
  simp [collectAll]

theorem fuel_child (H : Hier) (k : Key) (d : Nat) (h : ¬ depth H < k.level) :
    fuelOf H k = fuelOf H (child k d) + 1 := by
  unfold fuelOf; simp only [child]; omega

theorem collectAll_children (H : Hier) (q : Query) (es : Page) (k : Key) (f : Nat)
    (h : ∀ d, fuelOf H (child k d) = f) :
    collectAll H q es (childrenRev k) = (childrenRev k).flatMap (collect H q es f) := by
  simp only [collectAll, childrenRev, List.flatMap_map]
  simp [h]

/-- **the traversal computes `collect`** when the dictionary holds no page reference (single-page
    hierarchies, or every needed page already merged by an earlier query): same nodes, same order -/
theorem loop_collect (H : Hier) (q : Query) (st : St) (hn : NoRefs st.entries) :
    loop H q st = .ok { st with todo := [], out := st.out ++ collectAll H q st.entries st.todo } := by
  fun_induction loop H q st with
  | case1 x h => cases x; simp_all [collectAll]
  | case2 x k rest h1 h2 ih =>
    rw [ih hn, h1, collectAll_cons]
    have : collect H q x.entries (fuelOf H k) k = [] := by
      cases hf : fuelOf H k <;> simp [collect, h2]
    simp [this]
  | case3 x k rest h1 h2 h3 ih =>
    rw [ih hn, h1, collectAll_cons]
    have : collect H q x.entries (fuelOf H k) k = [] := by
      cases hf : fuelOf H k <;> simp [collect, h3]
    simp [this]
  | case4 x k rest h1 h2 h3 h4 ih =>
    rw [ih hn, h1, collectAll_cons]
    have : collect H q x.entries (fuelOf H k) k = [] := by
      cases hf : fuelOf H k <;> simp [collect, h4]
    simp [this]
  | case5 x k rest h1 h2 h3 h4 h5 ih =>
    rw [ih hn, h1, collectAll_cons]
    have : collect H q x.entries (fuelOf H k) k = [] := by
      cases hf : fuelOf H k <;> simp [collect, h5]
    simp [this]
  | case6 x k rest h1 h2 h3 h4 e h5 h6 => exact absurd h6 (hn k e h5)
  | case7 x k rest h1 h2 h3 h4 e h5 h6 => exact absurd h6 (hn k e h5)
  | case8 x k rest h1 h2 h3 h4 e h5 h6 => exact absurd h6 (hn k e h5)
  | case9 x k rest h1 h2 h3 h4 e h5 h6 => exact absurd h6 (hn k e h5)
  | case10 x k rest h1 h2 h3 h4 e h5 h6 h7 ih =>
    rw [ih hn, h1, collectAll_cons, collectAll_append]
    have hf := fuel_child H k 0 h4
    have hc : collect H q x.entries (fuelOf H k) k =
        addOut q [] ⟨k, e.offset, e.byteSize, e.count⟩ ++ (childrenRev k).flatMap (collect H q x.entries (fuelOf H (child k 0))) := by
      rw [hf]; simp [collect, h2, h3, h4, h5, h7]
    rw [hc, collectAll_children H q x.entries k (fuelOf H (child k 0)) (fun d => by unfold fuelOf; simp [child])]
    simp only [St.mk.injEq, true_and, Except.ok.injEq]
    rw [addOut_eq]
    simp [List.append_assoc]
  | case11 x k rest h1 h2 h3 h4 e h5 h6 h7 ih =>
    rw [ih hn, h1, collectAll_cons]
    have hf := fuel_child H k 0 h4
    have hc : collect H q x.entries (fuelOf H k) k = addOut q [] ⟨k, 0, 0, 0⟩ := by
      rw [hf]; simp [collect, h2, h3, h4, h5, h7]
    rw [hc]
    simp only [St.mk.injEq, true_and, Except.ok.injEq]
    rw [addOut_eq]
    simp [List.append_assoc]

def HasData (es : Page) (k : Key) : Prop := ∃ e, lookup es k = some e ∧ 0 ≤ e.count

def Good (es : Page) (q : Query) (k : Key) : Prop := q.ov k = true ∧ q.cut k.level = false ∧ HasData es k

/-- `Path k j`: `j` is `k` or below it, and every node strictly above `j` on the way down from `k`
    overlaps, is not cut, and holds data (so its children were queued) -/
inductive Path (es : Page) (q : Query) : Key → Key → Prop
  | here (k : Key) : Path es q k k
  | down {k j : Key} (d : Nat) : d < 8 → Good es q k → Path es q (child k d) j → Path es q k j

/-- the same with the data condition only (the octree's own parent chain) -/
inductive Anc (es : Page) : Key → Key → Prop
  | here (k : Key) : Anc es k k
  | down {k j : Key} (d : Nat) : d < 8 → HasData es k → Anc es (child k d) j → Anc es k j

def nodeOf (j : Key) (e : Entry) : Node := if 0 ≤ e.count then ⟨j, e.offset, e.byteSize, e.count⟩ else ⟨j, 0, 0, 0⟩

theorem nodeOf_key (j : Key) (e : Entry) : (nodeOf j e).key = j := by unfold nodeOf; split <;> rfl

theorem path_level {es : Page} {q : Query} {k j : Key} (h : Path es q k j) : k.level ≤ j.level := by
  induction h with
  | here => exact Nat.le_refl _
  | down d _ _ _ ih => simp only [child] at ih; omega

theorem mem_childrenRev (k : Key) (d : Nat) (h : d < 8) : child k d ∈ childrenRev k := by
  unfold childrenRev
  refine List.mem_map.mpr ⟨d, ?_, rfl⟩
  simp only [List.mem_cons, List.mem_nil_iff, or_false]
  omega

theorem of_mem_childrenRev {k c : Key} (h : c ∈ childrenRev k) : ∃ d, d < 8 ∧ c = child k d := by
  unfold childrenRev at h
  obtain ⟨d, hd, rfl⟩ := List.mem_map.mp h
  refine ⟨d, ?_, rfl⟩
  simp only [List.mem_cons, List.mem_nil_iff, or_false] at hd
  omega

theorem mem_addOut (q : Query) (n m : Node) : n ∈ addOut q [] m ↔ q.inRange m.key.level = true ∧ n = m := by
  unfold addOut; split <;> simp_all

/-- membership in `collect`, with enough fuel -/
theorem mem_collect (H : Hier) (q : Query) (es : Page) (hs : Sub H es) (f : Nat) (k : Key)
    (hf : depth H + 1 - k.level ≤ f) (n : Node) :
    n ∈ collect H q es f k ↔
      ∃ j e, Path es q k j ∧ q.ov j = true ∧ q.cut j.level = false ∧ lookup es j = some e ∧
        q.inRange j.level = true ∧ n = nodeOf j e := by
  induction f generalizing k with
  | zero =>
    simp only [collect, List.not_mem_nil, false_iff]
    rintro ⟨j, e, hp, _, _, hl, _, _⟩
    have := path_level hp
    have hd : depth H < j.level := by omega
    rw [lookup_deep hs hd] at hl
    cases hl
  | succ f ih =>
    constructor
    · intro hn
      simp only [collect] at hn
      split at hn
      · cases hn
      · next h1 =>
        split at hn
        · cases hn
        · next h2 =>
          split at hn
          · cases hn
          · next h3 =>
            split at hn
            · cases hn
            · next e he =>
              split at hn
              · next hc =>
                rw [List.mem_append] at hn
                rcases hn with hn | hn
                · rw [mem_addOut] at hn
                  exact ⟨k, e, .here k, by simpa using h1, by simpa using h2, he, hn.1, by rw [hn.2]; simp [nodeOf, hc]⟩
                · obtain ⟨c, hc1, hc2⟩ := List.mem_flatMap.mp hn
                  obtain ⟨d, hd, rfl⟩ := of_mem_childrenRev hc1
                  obtain ⟨j, e', hp, r⟩ := (ih (child k d) (by simp only [child]; omega)).mp hc2
                  exact ⟨j, e', .down d hd ⟨by simpa using h1, by simpa using h2, e, he, hc⟩ hp, r⟩
              · next hc =>
                rw [mem_addOut] at hn
                exact ⟨k, e, .here k, by simpa using h1, by simpa using h2, he, hn.1, by rw [hn.2]; simp [nodeOf, hc]⟩
    · rintro ⟨j, e, hp, h1, h2, hl, hr, rfl⟩
      cases hp with
      | here =>
        have hd : ¬ depth H < k.level := by
          intro hd; rw [lookup_deep hs hd] at hl; cases hl
        simp only [collect, h1, h2, hd, hl]
        simp only [Bool.true_eq_false, if_false, Bool.false_eq_true]
        by_cases hc : 0 ≤ e.count
        · simp only [hc, if_true, List.mem_append]
          left
          rw [mem_addOut]
          exact ⟨hr, by simp [nodeOf, hc]⟩
        · simp only [hc, if_false]
          rw [mem_addOut]
          exact ⟨hr, by simp [nodeOf, hc]⟩
      | down d hd hg hp' =>
        obtain ⟨g1, g2, e0, g3, g4⟩ := hg
        have hdp : ¬ depth H < k.level := by
          intro hd; rw [lookup_deep hs hd] at g3; cases g3
        simp only [collect, g1, g2, hdp, g3, g4]
        simp only [Bool.true_eq_false, if_false, Bool.false_eq_true, if_true, List.mem_append]
        right
        refine List.mem_flatMap.mpr ⟨child k d, mem_childrenRev k d hd, ?_⟩
        exact (ih (child k d) (by simp only [child]; omega)).mpr ⟨j, e, hp', h1, h2, hl, hr, rfl⟩

/-- pruning is monotone: a child's cube lies in its parent's, and levels beyond the range stay beyond -/
structure Mono (q : Query) : Prop where
  ov : ∀ k d, d < 8 → q.ov (child k d) = true → q.ov k = true
  cut : ∀ l, q.cut l = true → q.cut (l + 1) = true

theorem anc_ov {es : Page} {q : Query} (hm : Mono q) {k j : Key} (h : Anc es k j) :
    q.ov j = true → q.ov k = true := by
  induction h with
  | here => exact id
  | down d hd _ _ ih => intro hj; exact hm.ov _ d hd (ih hj)

theorem anc_cut {es : Page} {q : Query} (hm : Mono q) {k j : Key} (h : Anc es k j) :
    q.cut j.level = false → q.cut k.level = false := by
  induction h with
  | here => exact id
  | down d hd _ _ ih =>
    intro hj
    have h1 := ih hj
    cases hc : q.cut _ with
    | false => rfl
    | true => have := hm.cut _ hc; simp only [child] at h1; rw [this] at h1; cases h1

/-- **pruning loses nothing**: a node whose parents all hold data is reached as soon as it overlaps
    the box and is not beyond the range itself -/
theorem anc_path {es : Page} {q : Query} (hm : Mono q) {k j : Key} (h : Anc es k j)
    (h1 : q.ov j = true) (h2 : q.cut j.level = false) : Path es q k j := by
  induction h with
  | here => exact .here _
  | down d hd hdat ha ih =>
    have hcut : q.cut _ = false := anc_cut hm (.down d hd hdat ha) h2
    exact .down d hd ⟨hm.ov _ d hd (anc_ov hm ha h1), hcut, hdat⟩ (ih h1 h2)

theorem path_anc {es : Page} {q : Query} {k j : Key} (h : Path es q k j) : Anc es k j := by
  induction h with
  | here => exact .here _
  | down d hd hg _ ih => exact .down d hd hg.2.2 ih

theorem sub_root (H : Hier) : Sub H H.root := fun _ hx => Or.inl hx

/-- **C15 nodes (partial: no page reference left to follow)**: on every hierarchy whose dictionary
    holds no reference — any depth, sparsity, empty nodes — the traversal succeeds and returns exactly
    the nodes that are selected: the parents all hold data, the cube overlaps the box, the level is in
    the range -/
theorem C15_nodes_partial (H : Hier) (q : Query) (hm : Mono q) (hn : NoRefs H.root)
    (hr : ∀ l, q.inRange l = true → q.cut l = false) :
    ∃ st, load H q = .ok st ∧ st.todo = [] ∧
      ∀ n, n ∈ st.out ↔ ∃ j e, Anc H.root rootKey j ∧ q.ov j = true ∧ q.inRange j.level = true ∧
        lookup H.root j = some e ∧ n = nodeOf j e := by
  refine ⟨_, loop_collect H q _ hn, rfl, ?_⟩
  intro n
  simp only [List.nil_append, collectAll, List.flatMap_cons, List.flatMap_nil, List.append_nil]
  rw [mem_collect H q H.root (sub_root H) _ rootKey (by unfold fuelOf; omega)]
  constructor
  · rintro ⟨j, e, hp, h1, _, hl, hrg, rfl⟩
    exact ⟨j, e, path_anc hp, h1, hrg, hl, rfl⟩
  · rintro ⟨j, e, ha, h1, hrg, hl, rfl⟩
    exact ⟨j, e, anc_path hm ha h1 (hr _ hrg), h1, hr _ hrg, hl, hrg, rfl⟩

/-- **a page that is referenced again fails the query** (this is what stops every reference cycle) -/
theorem C15_malformed_revisit (H : Hier) (q : Query) (es : Page) (k : Key) (rest : List Key) (vis : List Ref)
    (out : List Node) (e : Entry) (h1 : q.ov k = true) (h2 : q.cut k.level = false) (h3 : ¬ depth H < k.level)
    (hl : lookup es k = some e) (hc : e.count = -1) (hv : (e.offset, e.byteSize) ∈ vis) :
    loop H q ⟨es, k :: rest, vis, out⟩ = .error "malformed" := by
  rw [loop]
  simp [h1, h2, h3, hl, hc, hv]

/-- **a referenced page that does not define the node with data fails the query** -/
theorem C15_malformed_undefined (H : Hier) (q : Query) (es : Page) (k : Key) (rest : List Key) (vis : List Ref)
    (out : List Node) (e : Entry) (h1 : q.ov k = true) (h2 : q.cut k.level = false)
    (hs : Sub H es) (hl : lookup es k = some e) (hc : e.count = -1)
    (hu : ∀ e', lookup (update es (pageAt H (e.offset, e.byteSize))) k = some e' → e'.count = -1) :
    loop H q ⟨es, k :: rest, vis, out⟩ = .error "malformed" := by
  have h3 : ¬ depth H < k.level := by
    intro hd; rw [lookup_deep hs hd] at hl; cases hl
  have hr := sub_ref hs hl hc
  have hk : ∃ e', lookup (update es (pageAt H (e.offset, e.byteSize))) k = some e' := by
    unfold update
    generalize (pageAt H (e.offset, e.byteSize)).reverse = p
    induction p with
    | nil => exact ⟨e, hl⟩
    | cons x xs ih =>
      obtain ⟨j, e0⟩ := x
      simp only [List.cons_append, lookup]
      split
      · exact ⟨e0, rfl⟩
      · exact ih
  obtain ⟨e', he'⟩ := hk
  rw [loop]
  by_cases hv : (e.offset, e.byteSize) ∈ vis
  · simp [h1, h2, h3, hl, hc, hv]
  · simp [h1, h2, h3, hl, hc, hv, hr, he', hu e' he']

/-- every outcome is a node list or the error `malformed` -/
theorem C15_outcomes (H : Hier) (q : Query) : (∃ st, load H q = .ok st ∧ st.todo = []) ∨ load H q = .error "malformed" := by
  have key : ∀ st : St, (∃ st', loop H q st = .ok st' ∧ st'.todo = []) ∨ loop H q st = .error "malformed" ∨ loop H q st = .error "impossible" := by
    intro st
    fun_induction loop H q st with
    | case1 x h => exact Or.inl ⟨x, rfl, h⟩
    | case2 _ _ _ _ _ ih => exact ih
    | case3 _ _ _ _ _ _ ih => exact ih
    | case4 _ _ _ _ _ _ _ ih => exact ih
    | case5 _ _ _ _ _ _ _ _ ih => exact ih
    | case6 => exact Or.inr (Or.inl rfl)
    | case7 => exact Or.inr (Or.inl rfl)
    | case8 _ _ _ _ _ _ _ _ _ _ _ _ _ _ ih => exact ih
    | case9 => exact Or.inr (Or.inr rfl)
    | case10 _ _ _ _ _ _ _ _ _ _ _ ih => exact ih
    | case11 _ _ _ _ _ _ _ _ _ _ _ ih => exact ih
  rcases key ⟨H.root, [rootKey], [], []⟩ with h | h | h
  · exact Or.inl h
  · exact Or.inr h
  · exact absurd h (C15_reachable H q _ (sub_root H))

end LasModel.Props.C15

namespace LasModel.Props.C15
open LasModel.Copc Gen.Copc

/-- non-vacuity: a two-level hierarchy without references meets the hypotheses of
    `C15_nodes_partial`, and a self-referencing root meets those of `C15_malformed_revisit`'s
    first step (`C15_malformed_undefined`) -/
example : NoRefs [(rootKey, ⟨100, 60, 2⟩), (child rootKey 3, ⟨160, 30, 1⟩)] := by
  intro k e h
  simp only [lookup] at h
  split at h
  · cases h; decide
  · split at h
    · cases h; decide
    · cases h

example : Mono (noRangeQuery (fun _ => true)) := ⟨fun _ _ _ _ => rfl, fun _ h => by cases h⟩

example : let H : Hier := ⟨[(rootKey, ⟨500, 32, -1⟩)], [((500, 32), [(rootKey, ⟨500, 32, -1⟩)])]⟩
    Sub H H.root ∧ lookup H.root rootKey = some ⟨500, 32, -1⟩ ∧
      ∀ e', lookup (update H.root (pageAt H (500, 32))) rootKey = some e' → e'.count = -1 := by
  refine ⟨fun _ hx => Or.inl hx, rfl, ?_⟩
  intro e' h
  simp [update, pageAt, findPage, lookup] at h
  subst h; rfl

end LasModel.Props.C15

namespace LasModel.Props.C15
open LasModel.Copc Gen.Copc

/-! ### traversal across lazily loaded pages -/

/-- a record of the root page or of the page found at some reference -/
def InFile (H : Hier) (x : Key × Entry) : Prop := x ∈ H.root ∨ ∃ r, x ∈ pageAt H r

/-- `H` is a paged presentation of the reference-free dictionary `M`: every data record agrees with
    `M`, every page reference leads to a page, and whichever page gives a node its data also has a
    record (data or reference) for each of the node's children that exist in `M` -/
structure Paged (H : Hier) (M : Page) : Prop where
  sub : Sub H M
  noRefs : NoRefs M
  data : ∀ k e, InFile H (k, e) → e.count ≠ -1 → lookup M k = some e
  root : (lookup M rootKey).isSome → (lookup H.root rootKey).isSome
  childRoot : ∀ k e, (k, e) ∈ H.root → 0 ≤ e.count → ∀ d, d < 8 → (lookup M (child k d)).isSome → ∃ e', (child k d, e') ∈ H.root
  childPage : ∀ r k e, (k, e) ∈ pageAt H r → 0 ≤ e.count → ∀ d, d < 8 → (lookup M (child k d)).isSome → ∃ e', (child k d, e') ∈ pageAt H r

structure LInv (H : Hier) (M : Page) (st : St) : Prop where
  from_ : ∀ x ∈ st.entries, x ∈ H.root ∨ ∃ r ∈ st.visited, x ∈ pageAt H r
  rootIn : ∀ x ∈ H.root, x ∈ st.entries
  pagesIn : ∀ r ∈ st.visited, ∀ x ∈ pageAt H r, x ∈ st.entries
  complete : ∀ c ∈ st.todo, (lookup M c).isSome → (lookup st.entries c).isSome

theorem lookup_isSome_of_mem {es : Page} {k : Key} {e : Entry} (h : (k, e) ∈ es) : (lookup es k).isSome := by
  induction es with
  | nil => cases h
  | cons x xs ih =>
    obtain ⟨j, e'⟩ := x
    simp only [lookup]
    split
    · rfl
    · next hj =>
      cases h with
      | head => exact absurd rfl hj
      | tail _ h => exact ih h

theorem lookup_append_isSome (p es : Page) (k : Key) (h : (lookup es k).isSome) : (lookup (p ++ es) k).isSome := by
  induction p with
  | nil => exact h
  | cons x xs ih =>
    obtain ⟨j, e'⟩ := x
    simp only [List.cons_append, lookup]
    split
    · rfl
    · exact ih

theorem mem_collectAll_cons (H : Hier) (q : Query) (M : Page) (k : Key) (rest : List Key) (n : Node) :
    n ∈ collectAll H q M (k :: rest) ↔ n ∈ collect H q M (fuelOf H k) k ∨ n ∈ collectAll H q M rest := by
  rw [collectAll_cons, List.mem_append]

theorem mem_collectAll_append (H : Hier) (q : Query) (M : Page) (a b : List Key) (n : Node) :
    n ∈ collectAll H q M (a ++ b) ↔ n ∈ collectAll H q M a ∨ n ∈ collectAll H q M b := by
  rw [collectAll_append, List.mem_append]

theorem collect_nil_of (H : Hier) (q : Query) (M : Page) (k : Key)
    (h : q.ov k = false ∨ q.cut k.level = true ∨ depth H < k.level ∨ lookup M k = none) :
    collect H q M (fuelOf H k) k = [] := by
  cases hf : fuelOf H k with
  | zero => rfl
  | succ f =>
    simp only [collect]
    rcases h with h | h | h | h
    · simp [h]
    · by_cases h1 : q.ov k = false <;> simp [h1, h]
    · by_cases h1 : q.ov k = false <;> by_cases h2 : q.cut k.level = true <;> simp [h1, h2, h]
    · by_cases h1 : q.ov k = false <;> by_cases h2 : q.cut k.level = true <;> by_cases h3 : depth H < k.level <;> simp [h1, h2, h3, h]

theorem inFile_of_inv {H : Hier} {M : Page} {st : St} (hI : LInv H M st) {x : Key × Entry} (hx : x ∈ st.entries) : InFile H x := by
  rcases hI.from_ x hx with h | ⟨r, _, h⟩
  · exact Or.inl h
  · exact Or.inr ⟨r, h⟩

/-- **whenever the traversal returns, it has returned exactly the nodes of the recursive traversal of
    the merged dictionary** — across any number of lazily loaded pages, in whatever order the
    re-queued nodes were processed -/
theorem lazy_collect (H : Hier) (q : Query) (M : Page) (hP : Paged H M) (st st' : St) (hI : LInv H M st)
    (hr : loop H q st = .ok st') :
    ∀ n, n ∈ st'.out ↔ n ∈ st.out ∨ n ∈ collectAll H q M st.todo := by
  fun_induction loop H q st with
  | case1 x h =>
    injection hr with hr; subst hr
    intro n; simp [h, collectAll]
  | case2 x k rest h1 h2 ih =>
    intro n
    rw [ih ⟨hI.from_, hI.rootIn, hI.pagesIn, fun c hc => hI.complete c (by rw [h1]; exact List.mem_cons_of_mem _ hc)⟩ hr n,
      h1, mem_collectAll_cons, collect_nil_of H q M k (Or.inl h2)]
    simp
  | case3 x k rest h1 h2 h3 ih =>
    intro n
    rw [ih ⟨hI.from_, hI.rootIn, hI.pagesIn, fun c hc => hI.complete c (by rw [h1]; exact List.mem_cons_of_mem _ hc)⟩ hr n,
      h1, mem_collectAll_cons, collect_nil_of H q M k (Or.inr (Or.inl h3))]
    simp
  | case4 x k rest h1 h2 h3 h4 ih =>
    intro n
    rw [ih ⟨hI.from_, hI.rootIn, hI.pagesIn, fun c hc => hI.complete c (by rw [h1]; exact List.mem_cons_of_mem _ hc)⟩ hr n,
      h1, mem_collectAll_cons, collect_nil_of H q M k (Or.inr (Or.inr (Or.inl h4)))]
    simp
  | case5 x k rest h1 h2 h3 h4 h5 ih =>
    intro n
    have hm : lookup M k = none := by
      cases hM : lookup M k with
      | none => rfl
      | some e =>
        have := hI.complete k (by rw [h1]; exact List.mem_cons_self) (by rw [hM]; rfl)
        rw [h5] at this; cases this
    rw [ih ⟨hI.from_, hI.rootIn, hI.pagesIn, fun c hc => hI.complete c (by rw [h1]; exact List.mem_cons_of_mem _ hc)⟩ hr n,
      h1, mem_collectAll_cons, collect_nil_of H q M k (Or.inr (Or.inr (Or.inr hm)))]
    simp
  | case6 => cases hr
  | case7 => cases hr
  | case8 x k rest h1 h2 h3 h4 e h5 h6 h7 h8 entries h9 ih =>
    intro n
    have hI' : LInv H M { entries := entries, todo := rest ++ [k], visited := (e.offset, e.byteSize) :: x.visited, out := x.out } := by
      refine ⟨?_, ?_, ?_, ?_⟩
      · intro y hy
        simp only [entries, update, List.mem_append, List.mem_reverse] at hy
        rcases hy with hy | hy
        · exact Or.inr ⟨_, List.mem_cons_self, hy⟩
        · rcases hI.from_ y hy with h | ⟨r, hr', h⟩
          · exact Or.inl h
          · exact Or.inr ⟨r, List.mem_cons_of_mem _ hr', h⟩
      · intro y hy
        simp only [entries, update, List.mem_append, List.mem_reverse]
        exact Or.inr (hI.rootIn y hy)
      · intro r hr' y hy
        simp only [entries, update, List.mem_append, List.mem_reverse]
        rcases List.mem_cons.mp hr' with rfl | hr''
        · exact Or.inl hy
        · exact Or.inr (hI.pagesIn r hr'' y hy)
      · intro c hc hMc
        have hc' : c ∈ x.todo := by
          rw [h1]
          rcases List.mem_append.mp hc with h | h
          · exact List.mem_cons_of_mem _ h
          · simp only [List.mem_singleton] at h; subst h; exact List.mem_cons_self
        exact lookup_append_isSome _ _ c (hI.complete c hc' hMc)
    rw [ih hI' hr n, h1, mem_collectAll_append, mem_collectAll_cons, mem_collectAll_cons]
    have hnil : ¬ n ∈ collectAll H q M [] := by simp [collectAll]
    constructor
    · rintro (h | h | h | h)
      · exact Or.inl h
      · exact Or.inr (Or.inr h)
      · exact Or.inr (Or.inl h)
      · exact absurd h hnil
    · rintro (h | h | h)
      · exact Or.inl h
      · exact Or.inr (Or.inr (Or.inl h))
      · exact Or.inr (Or.inl h)
  | case9 => cases hr
  | case10 x k rest h1 h2 h3 h4 e h5 h6 h7 ih =>
    intro n
    have hmem := lookup_mem h5
    have hM : lookup M k = some e := hP.data k e (inFile_of_inv hI hmem) h6
    have hI' : LInv H M ⟨x.entries, childrenRev k ++ rest, x.visited, addOut q x.out ⟨k, e.offset, e.byteSize, e.count⟩⟩ := by
      refine ⟨hI.from_, hI.rootIn, hI.pagesIn, ?_⟩
      intro c hc hMc
      rcases List.mem_append.mp hc with hc | hc
      · obtain ⟨d, hd, rfl⟩ := of_mem_childrenRev hc
        rcases hI.from_ _ hmem with hroot | ⟨r, hr', hp⟩
        · obtain ⟨e', he'⟩ := hP.childRoot k e hroot h7 d hd hMc
          exact lookup_isSome_of_mem (hI.rootIn _ he')
        · obtain ⟨e', he'⟩ := hP.childPage r k e hp h7 d hd hMc
          exact lookup_isSome_of_mem (hI.pagesIn r hr' _ he')
      · exact hI.complete c (by rw [h1]; exact List.mem_cons_of_mem _ hc) hMc
    rw [ih hI' hr n, h1, mem_collectAll_cons, mem_collectAll_append]
    have hf := fuel_child H k 0 h4
    have hc : collect H q M (fuelOf H k) k =
        addOut q [] ⟨k, e.offset, e.byteSize, e.count⟩ ++ (childrenRev k).flatMap (collect H q M (fuelOf H (child k 0))) := by
      rw [hf]; simp [collect, h2, h3, h4, hM, h7]
    rw [hc, collectAll_children H q M k (fuelOf H (child k 0)) (fun d => by unfold fuelOf; simp [child])]
    rw [addOut_eq, List.mem_append, List.mem_append]
    constructor
    · rintro ((h | h) | h | h)
      · exact Or.inl h
      · exact Or.inr (Or.inl (Or.inl h))
      · exact Or.inr (Or.inl (Or.inr h))
      · exact Or.inr (Or.inr h)
    · rintro (h | (h | h) | h)
      · exact Or.inl (Or.inl h)
      · exact Or.inl (Or.inr h)
      · exact Or.inr (Or.inl h)
      · exact Or.inr (Or.inr h)
  | case11 x k rest h1 h2 h3 h4 e h5 h6 h7 ih =>
    intro n
    have hmem := lookup_mem h5
    have hM : lookup M k = some e := hP.data k e (inFile_of_inv hI hmem) h6
    have hI' : LInv H M ⟨x.entries, rest, x.visited, addOut q x.out ⟨k, 0, 0, 0⟩⟩ :=
      ⟨hI.from_, hI.rootIn, hI.pagesIn, fun c hc => hI.complete c (by rw [h1]; exact List.mem_cons_of_mem _ hc)⟩
    rw [ih hI' hr n, h1, mem_collectAll_cons]
    have hf := fuel_child H k 0 h4
    have hc : collect H q M (fuelOf H k) k = addOut q [] ⟨k, 0, 0, 0⟩ := by
      rw [hf]; simp [collect, h2, h3, h4, hM, h7]
    rw [hc, addOut_eq, List.mem_append]
    constructor
    · rintro ((h | h) | h)
      · exact Or.inl h
      · exact Or.inr (Or.inl h)
      · exact Or.inr (Or.inr h)
    · rintro (h | h | h)
      · exact Or.inl (Or.inl h)
      · exact Or.inl (Or.inr h)
      · exact Or.inr h

/-- **C15 nodes, across pages**: for every hierarchy that is a paged presentation of a dictionary `M`
    (any depth, sparsity, empty nodes, any split over pages, pages loaded lazily in any order): whenever
    the query's traversal returns, the nodes it returns are exactly the selected ones — every parent holds
    data in `M`, the cube overlaps the box, the level is in the range — each with its chunk location -/
theorem C15_nodes_paged (H : Hier) (M : Page) (hP : Paged H M) (q : Query) (hm : Mono q)
    (hrg : ∀ l, q.inRange l = true → q.cut l = false) (st : St) (hr : load H q = .ok st) :
    ∀ n, n ∈ st.out ↔ ∃ j e, Anc M rootKey j ∧ q.ov j = true ∧ q.inRange j.level = true ∧
      lookup M j = some e ∧ n = nodeOf j e := by
  intro n
  have hI : LInv H M ⟨H.root, [rootKey], [], []⟩ := by
    refine ⟨fun x hx => Or.inl hx, fun x hx => hx, ?_, ?_⟩
    · intro r hr'; cases hr'
    · intro c hc h
      simp only [List.mem_singleton] at hc
      subst hc; exact hP.root h
  rw [lazy_collect H q M hP _ st hI hr n]
  simp only [List.not_mem_nil, false_or, collectAll, List.flatMap_cons, List.flatMap_nil, List.append_nil]
  rw [mem_collect H q M hP.sub _ rootKey (by unfold fuelOf; omega)]
  constructor
  · rintro ⟨j, e, hp, h1, _, hl, hrg', rfl⟩
    exact ⟨j, e, path_anc hp, h1, hrg', hl, rfl⟩
  · rintro ⟨j, e, ha, h1, hrg', hl, rfl⟩
    exact ⟨j, e, anc_path hm ha h1 (hrg _ hrg'), h1, hrg _ hrg', hl, hrg', rfl⟩

/-- non-vacuity: a two-page hierarchy (the root refers to a page that holds a child's data) is a paged
    presentation of the merged dictionary -/
example : Paged ⟨[(rootKey, ⟨100, 60, 2⟩), (child rootKey 3, ⟨500, 32, -1⟩)], [((500, 32), [(child rootKey 3, ⟨160, 30, 1⟩)])]⟩
    [(rootKey, ⟨100, 60, 2⟩), (child rootKey 3, ⟨160, 30, 1⟩)] := by
  refine ⟨?_, ?_, ?_, ?_, ?_, ?_⟩
  · intro x hx
    simp only [List.mem_cons, List.mem_nil_iff, or_false] at hx
    rcases hx with rfl | rfl
    · exact Or.inl (by simp)
    · exact Or.inr ⟨_, List.mem_cons_self, by simp⟩
  · intro k e h
    simp only [lookup] at h
    split at h
    · cases h; decide
    · split at h
      · cases h; decide
      · cases h
  · intro k e hin hc
    rcases hin with h | ⟨r, h⟩
    · simp only [List.mem_cons, List.mem_nil_iff, or_false, Prod.mk.injEq] at h
      rcases h with ⟨rfl, rfl⟩ | ⟨rfl, rfl⟩
      · rfl
      · exact absurd rfl hc
    · simp only [pageAt, findPage] at h
      split at h
      · simp only [List.mem_cons, List.mem_nil_iff, or_false, Prod.mk.injEq] at h
        obtain ⟨rfl, rfl⟩ := h
        decide
      · cases h
  · intro _; rfl
  · intro k e h hc d hd hM
    simp only [List.mem_cons, List.mem_nil_iff, or_false, Prod.mk.injEq] at h
    rcases h with ⟨rfl, rfl⟩ | ⟨rfl, rfl⟩
    · have : d = 3 := by
        have h8 : d = 0 ∨ d = 1 ∨ d = 2 ∨ d = 3 ∨ d = 4 ∨ d = 5 ∨ d = 6 ∨ d = 7 := by omega
        rcases h8 with rfl | rfl | rfl | rfl | rfl | rfl | rfl | rfl <;> first | rfl | (exfalso; revert hM; decide)
      subst this
      exact ⟨⟨500, 32, -1⟩, by simp⟩
    · exact absurd hc (by decide)
  · intro r k e h hc d hd hM
    simp only [pageAt, findPage] at h
    split at h
    · simp only [List.mem_cons, List.mem_nil_iff, or_false, Prod.mk.injEq] at h
      obtain ⟨rfl, rfl⟩ := h
      exfalso
      have h8 : d = 0 ∨ d = 1 ∨ d = 2 ∨ d = 3 ∨ d = 4 ∨ d = 5 ∨ d = 6 ∨ d = 7 := by omega
      rcases h8 with rfl | rfl | rfl | rfl | rfl | rfl | rfl | rfl <;> (revert hM; decide)
    · cases h

end LasModel.Props.C15

namespace LasModel.Props.C15
open LasModel.Copc Gen.Copc

def target (e : Entry) : Ref := (e.offset, e.byteSize)

/-- the page-reference rule of a well-formed file: the page a reference leads to describes the node
    with data; a node has one reference record, stored in one page; a page is referenced for one node -/
structure RefRule (H : Hier) : Prop where
  resolves : ∀ k e, InFile H (k, e) → e.count = -1 →
    ∃ e', lookup (pageAt H (target e)).reverse k = some e' ∧ e'.count ≠ -1
  oneRef : ∀ k e1 e2, InFile H (k, e1) → InFile H (k, e2) → e1.count = -1 → e2.count = -1 → e1 = e2
  oneKey : ∀ k1 e1 k2 e2, InFile H (k1, e1) → InFile H (k2, e2) → e1.count = -1 → e2.count = -1 →
    target e1 = target e2 → k1 = k2
  notRoot : ∀ k e r, e.count = -1 → (k, e) ∈ H.root → (k, e) ∉ pageAt H r
  onePage : ∀ k e r1 r2, e.count = -1 → (k, e) ∈ pageAt H r1 → (k, e) ∈ pageAt H r2 → r1 = r2

structure VInv (H : Hier) (st : St) : Prop where
  from_ : ∀ x ∈ st.entries, x ∈ H.root ∨ ∃ r ∈ st.visited, x ∈ pageAt H r
  fresh : ∀ k e, lookup st.entries k = some e → e.count = -1 → target e ∉ st.visited
  cause : ∀ r ∈ st.visited, ∃ k e, e.count = -1 ∧ target e = r ∧ ((k, e) ∈ H.root ∨ ∃ r' ∈ st.visited, (k, e) ∈ pageAt H r')

theorem lookup_append_some (p es : Page) (k : Key) (e : Entry) (h : lookup p k = some e) : lookup (p ++ es) k = some e := by
  induction p with
  | nil => cases h
  | cons x xs ih =>
    obtain ⟨j, e'⟩ := x
    simp only [List.cons_append, lookup] at h ⊢
    split
    · next hj => simp only [hj, if_true] at h; exact h
    · next hj => simp only [hj, if_false] at h; exact ih h

theorem lookup_append_none (p es : Page) (k : Key) (h : lookup p k = none) : lookup (p ++ es) k = lookup es k := by
  induction p with
  | nil => rfl
  | cons x xs ih =>
    obtain ⟨j, e'⟩ := x
    simp only [List.cons_append, lookup] at h ⊢
    split
    · next hj => simp only [hj, if_true] at h; cases h
    · next hj => simp only [hj, if_false] at h; exact ih h

theorem sub_of_from {H : Hier} {es : Page} {vis : List Ref}
    (h : ∀ x ∈ es, x ∈ H.root ∨ ∃ r ∈ vis, x ∈ pageAt H r) : Sub H es := by
  intro x hx
  rcases h x hx with h1 | ⟨r, _, h2⟩
  · exact Or.inl h1
  · exact Or.inr (findPage_sub _ _ x h2)

theorem inFile_of_from {H : Hier} {es : Page} {vis : List Ref}
    (h : ∀ x ∈ es, x ∈ H.root ∨ ∃ r ∈ vis, x ∈ pageAt H r) {x : Key × Entry} (hx : x ∈ es) : InFile H x := by
  rcases h x hx with h1 | ⟨r, _, h2⟩
  · exact Or.inl h1
  · exact Or.inr ⟨r, h2⟩

/-- **a file that obeys the page-reference rule never makes the traversal fail** -/
theorem loop_succeeds (H : Hier) (q : Query) (hR : RefRule H) (st : St) (hV : VInv H st) :
    ∃ st', loop H q st = .ok st' := by
  fun_induction loop H q st with
  | case1 x h => exact ⟨x, rfl⟩
  | case2 x k rest h1 h2 ih => exact ih ⟨hV.from_, hV.fresh, hV.cause⟩
  | case3 x k rest h1 h2 h3 ih => exact ih ⟨hV.from_, hV.fresh, hV.cause⟩
  | case4 x k rest h1 h2 h3 h4 ih => exact ih ⟨hV.from_, hV.fresh, hV.cause⟩
  | case5 x k rest h1 h2 h3 h4 h5 ih => exact ih ⟨hV.from_, hV.fresh, hV.cause⟩
  | case6 x k rest h1 h2 h3 h4 e h5 h6 h7 => exact absurd h7 (hV.fresh k e h5 h6)
  | case7 x k rest h1 h2 h3 h4 e h5 h6 h7 h8 entries h9 =>
    exfalso
    obtain ⟨e', he', hne⟩ := hR.resolves k e (inFile_of_from hV.from_ (lookup_mem h5)) h6
    have : lookup entries k = some e' := lookup_append_some _ _ k e' he'
    rw [this] at h9
    simp at h9
    exact hne h9
  | case8 x k rest h1 h2 h3 h4 e h5 h6 h7 h8 entries h9 ih =>
    apply ih
    have hin0 : InFile H (k, e) := inFile_of_from hV.from_ (lookup_mem h5)
    refine ⟨?_, ?_, ?_⟩
    · intro y hy
      simp only [entries, update, List.mem_append, List.mem_reverse] at hy
      rcases hy with hy | hy
      · exact Or.inr ⟨_, List.mem_cons_self, hy⟩
      · rcases hV.from_ y hy with h | ⟨r, hr', h⟩
        · exact Or.inl h
        · exact Or.inr ⟨r, List.mem_cons_of_mem _ hr', h⟩
    · intro j ej hj hc ht
      cases hp : lookup (pageAt H (e.offset, e.byteSize)).reverse j with
      | some xj =>
        -- the new page defines j: the visible record is the page's
        have hvis : lookup entries j = some xj := lookup_append_some _ _ j xj hp
        rw [hvis] at hj; injection hj with hj; subst hj
        have hmemP : (j, xj) ∈ pageAt H (e.offset, e.byteSize) := List.mem_reverse.mp (lookup_mem hp)
        have hinj : InFile H (j, xj) := Or.inr ⟨_, hmemP⟩
        rcases List.mem_cons.mp ht with ht | ht
        · -- it targets the page just loaded: that page must give j its data
          obtain ⟨e', he', hne⟩ := hR.resolves j xj hinj hc
          have : target xj = (e.offset, e.byteSize) := ht
          rw [this, hp] at he'
          injection he' with he'; subst he'
          exact hne hc
        · -- it targets a page loaded earlier
          obtain ⟨k2, e2, hc2, ht2, hwhere⟩ := hV.cause _ ht
          have hin2 : InFile H (k2, e2) := by
            rcases hwhere with h | ⟨r', _, h⟩
            · exact Or.inl h
            · exact Or.inr ⟨r', h⟩
          have hk : k2 = j := hR.oneKey k2 e2 j xj hin2 hinj hc2 hc ht2
          subst hk
          have he : e2 = xj := hR.oneRef k2 e2 xj hin2 hinj hc2 hc
          subst he
          rcases hwhere with h | ⟨r', hr', h⟩
          · exact hR.notRoot k2 e2 _ hc h hmemP
          · have := hR.onePage k2 e2 r' (e.offset, e.byteSize) hc h hmemP
            subst this
            exact h7 hr'
      | none =>
        have hvis : lookup entries j = lookup x.entries j := lookup_append_none _ _ j hp
        rw [hvis] at hj
        rcases List.mem_cons.mp ht with ht | ht
        · -- a second visible reference to the page just loaded: the same node, which the page defines
          have hinj : InFile H (j, ej) := inFile_of_from hV.from_ (lookup_mem hj)
          have hk : j = k := hR.oneKey j ej k e hinj hin0 hc h6 ht
          subst hk
          obtain ⟨e', he', _⟩ := hR.resolves j e hin0 h6
          unfold target at he'
          rw [hp] at he'; cases he'
        · exact hV.fresh j ej hj hc ht
    · intro r hr'
      rcases List.mem_cons.mp hr' with rfl | hr''
      · refine ⟨k, e, h6, rfl, ?_⟩
        rcases hV.from_ _ (lookup_mem h5) with h | ⟨r', hr3, h⟩
        · exact Or.inl h
        · exact Or.inr ⟨r', List.mem_cons_of_mem _ hr3, h⟩
      · obtain ⟨k2, e2, hc2, ht2, hwhere⟩ := hV.cause r hr''
        refine ⟨k2, e2, hc2, ht2, ?_⟩
        rcases hwhere with h | ⟨r', hr3, h⟩
        · exact Or.inl h
        · exact Or.inr ⟨r', List.mem_cons_of_mem _ hr3, h⟩
  | case9 x k rest h1 h2 h3 h4 e h5 h6 h7 h8 =>
    exact absurd (sub_ref (sub_of_from hV.from_) h5 h6) h8
  | case10 x k rest h1 h2 h3 h4 e h5 h6 h7 ih => exact ih ⟨hV.from_, hV.fresh, hV.cause⟩
  | case11 x k rest h1 h2 h3 h4 e h5 h6 h7 ih => exact ih ⟨hV.from_, hV.fresh, hV.cause⟩

/-- **C15 nodes, complete**: a file that is a paged presentation of `M` and obeys the page-reference
    rule: the query's traversal returns, and returns exactly the selected nodes -/
theorem C15_nodes (H : Hier) (M : Page) (hP : Paged H M) (hR : RefRule H) (q : Query) (hm : Mono q)
    (hrg : ∀ l, q.inRange l = true → q.cut l = false) :
    ∃ st, load H q = .ok st ∧
      ∀ n, n ∈ st.out ↔ ∃ j e, Anc M rootKey j ∧ q.ov j = true ∧ q.inRange j.level = true ∧
        lookup M j = some e ∧ n = nodeOf j e := by
  have hV : VInv H ⟨H.root, [rootKey], [], []⟩ := by
    refine ⟨fun x hx => Or.inl hx, ?_, ?_⟩
    · intro k e _ _ h; cases h
    · intro r hr; cases hr
  obtain ⟨st, hst⟩ := loop_succeeds H q hR ⟨H.root, [rootKey], [], []⟩ hV
  exact ⟨st, hst, C15_nodes_paged H M hP q hm hrg st hst⟩

/-- non-vacuity: the two-page hierarchy of the `Paged` example obeys the page-reference rule -/
example : RefRule ⟨[(rootKey, ⟨100, 60, 2⟩), (child rootKey 3, ⟨500, 32, -1⟩)], [((500, 32), [(child rootKey 3, ⟨160, 30, 1⟩)])]⟩ := by
  have hin : ∀ k e, InFile ⟨[(rootKey, ⟨100, 60, 2⟩), (child rootKey 3, ⟨500, 32, -1⟩)], [((500, 32), [(child rootKey 3, ⟨160, 30, 1⟩)])]⟩ (k, e) →
      e.count = -1 → k = child rootKey 3 ∧ e = ⟨500, 32, -1⟩ := by
    intro k e h hc
    rcases h with h | ⟨r, h⟩
    · simp only [List.mem_cons, List.mem_nil_iff, or_false, Prod.mk.injEq] at h
      rcases h with ⟨rfl, rfl⟩ | ⟨rfl, rfl⟩
      · exact absurd hc (by decide)
      · exact ⟨rfl, rfl⟩
    · simp only [pageAt, findPage] at h
      split at h
      · simp only [List.mem_cons, List.mem_nil_iff, or_false, Prod.mk.injEq] at h
        obtain ⟨rfl, rfl⟩ := h
        exact absurd hc (by decide)
      · cases h
  have hpage : ∀ k e r, (k, e) ∈ pageAt ⟨[(rootKey, ⟨100, 60, 2⟩), (child rootKey 3, ⟨500, 32, -1⟩)], [((500, 32), [(child rootKey 3, ⟨160, 30, 1⟩)])]⟩ r →
      e.count ≠ -1 := by
    intro k e r h
    simp only [pageAt, findPage] at h
    split at h
    · simp only [List.mem_cons, List.mem_nil_iff, or_false, Prod.mk.injEq] at h
      obtain ⟨rfl, rfl⟩ := h
      decide
    · cases h
  refine ⟨?_, ?_, ?_, ?_, ?_⟩
  · intro k e h hc
    obtain ⟨rfl, rfl⟩ := hin k e h hc
    exact ⟨⟨160, 30, 1⟩, by decide, by decide⟩
  · intro k e1 e2 h1 h2 c1 c2
    rw [(hin k e1 h1 c1).2, (hin k e2 h2 c2).2]
  · intro k1 e1 k2 e2 h1 h2 c1 c2 _
    rw [(hin k1 e1 h1 c1).1, (hin k2 e2 h2 c2).1]
  · intro k e r hc _ hp
    exact hpage k e r hp hc
  · intro k e r1 r2 hc hp _
    exact absurd hc (hpage k e r1 hp)

end LasModel.Props.C15

/-! ### grouping and fetching the chunks -/

namespace LasModel.Props.C15
open LasModel.Copc Gen.Copc

def nodeBytes (file : List UInt8) (n : Node) : List UInt8 := (file.drop n.offset).take n.byteSize

def Contig : Nat → List Node → Prop
  | _, [] => True
  | start, n :: ns => n.offset = start ∧ Contig (start + n.byteSize) ns

theorem sumSizes_cons (n : Node) (ns : List Node) : sumSizes (n :: ns) = n.byteSize + sumSizes ns := by
  simp [sumSizes]

theorem sumSizes_append (a b : List Node) : sumSizes (a ++ b) = sumSizes a + sumSizes b := by
  simp [sumSizes]

theorem contig_append (start : Nat) (g : List Node) (n : Node) (hg : Contig start g) (hn : n.offset = start + sumSizes g) :
    Contig start (g ++ [n]) := by
  induction g generalizing start with
  | nil => simp only [List.nil_append, Contig]; simp [sumSizes] at hn; exact ⟨hn, trivial⟩
  | cons x xs ih =>
    obtain ⟨h1, h2⟩ := hg
    refine ⟨h1, ih _ h2 ?_⟩
    rw [sumSizes_cons] at hn
    omega

theorem read_contig (file : List UInt8) (start : Nat) (g : List Node) (h : Contig start g) :
    (file.drop start).take (sumSizes g) = g.flatMap (nodeBytes file) := by
  induction g generalizing start with
  | nil => simp [sumSizes]
  | cons n ns ih =>
    obtain ⟨h1, h2⟩ := h
    rw [sumSizes_cons, List.flatMap_cons, List.take_add, nodeBytes, h1, List.drop_drop, ih _ h2]

def GoodGroup (g : List Node) : Prop := Contig ((g.head?.map (·.offset)).getD 0) g

theorem fetch_group (file : List UInt8) (g : List Node) (h : GoodGroup g) :
    fetchAll file (byteQueries [g]) = g.flatMap (nodeBytes file) := by
  simp only [fetchAll, byteQueries, List.map_cons, List.map_nil, List.flatMap_cons, List.flatMap_nil, List.append_nil]
  exact read_contig file _ g h

theorem fetch_groups (file : List UInt8) (gs : List (List Node)) (h : ∀ g ∈ gs, GoodGroup g) :
    fetchAll file (byteQueries gs) = gs.flatten.flatMap (nodeBytes file) := by
  induction gs with
  | nil => rfl
  | cons g gs ih =>
    have h1 := fetch_group file g (h g List.mem_cons_self)
    have h2 := ih (fun x hx => h x (List.mem_cons_of_mem _ hx))
    simp only [fetchAll, byteQueries, List.map_cons, List.flatMap_cons, List.flatten_cons, List.flatMap_append] at *
    simp only [List.map_nil, List.flatMap_nil, List.append_nil] at h1
    rw [h1, h2]

structure GInv (s : GState) (pre : List Node) : Prop where
  parts : s.groups.flatten ++ s.current = pre
  good : ∀ g ∈ s.groups, GoodGroup g
  cur : ∃ cs, Contig cs s.current ∧ s.lastEnd = cs + sumSizes s.current

theorem good_of_contig (cs : Nat) (g : List Node) (h : Contig cs g) : GoodGroup g := by
  cases g with
  | nil => trivial
  | cons x xs =>
    unfold GoodGroup
    simp only [List.head?_cons, Option.map_some, Option.getD_some]
    obtain ⟨h1, h2⟩ := h
    exact ⟨rfl, by rw [h1]; exact h2⟩

theorem ginv_step (s : GState) (pre : List Node) (n : Node) (h : GInv s pre) : GInv (groupStep s n) (pre ++ [n]) := by
  obtain ⟨hp, hg, cs, hc, hl⟩ := h
  unfold groupStep
  split
  · next he =>
    refine ⟨by simp only; rw [← List.append_assoc, hp], hg, cs, contig_append cs _ n hc (by rw [he, hl]), ?_⟩
    simp only [sumSizes_append, sumSizes_cons, hl]
    simp [sumSizes]; omega
  · refine ⟨?_, ?_, n.offset, ⟨rfl, trivial⟩, by simp [sumSizes]⟩
    · simp only [List.flatten_append, List.flatten_cons, List.flatten_nil, List.append_nil]
      rw [hp]
    · intro g hgm
      rcases List.mem_append.mp hgm with h1 | h1
      · exact hg g h1
      · simp only [List.mem_singleton] at h1; subst h1; exact good_of_contig cs _ hc

theorem ginv_fold (s : GState) (pre ns : List Node) (h : GInv s pre) : GInv (ns.foldl groupStep s) (pre ++ ns) := by
  induction ns generalizing s pre with
  | nil => simpa using h
  | cons n ns ih =>
    simp only [List.foldl_cons]
    have := ih (groupStep s n) (pre ++ [n]) (ginv_step s pre n h)
    simpa [List.append_assoc] using this

/-- **grouping loses and reorders nothing**: the groups, flattened, are the nodes; every group is a run of
    back-to-back chunks -/
theorem groupNodes_spec (nodes : List Node) :
    (groupNodes nodes).flatten = nodes ∧ ∀ g ∈ groupNodes nodes, GoodGroup g := by
  cases nodes with
  | nil => exact ⟨rfl, fun g hg => by cases hg⟩
  | cons n0 ns =>
    have h0 : GInv ⟨[], [], n0.offset⟩ [] := by
      refine ⟨rfl, ?_, n0.offset, trivial, ?_⟩
      · intro g hg; cases hg
      · simp [sumSizes]
    have hinv := ginv_fold ⟨[], [], n0.offset⟩ [] (n0 :: ns) h0
    simp only [List.nil_append] at hinv
    obtain ⟨hp, hg, cs, hc, _⟩ := hinv
    unfold groupNodes
    simp only
    split
    · next he =>
      have : (List.foldl groupStep ⟨[], [], n0.offset⟩ (n0 :: ns)).current = [] := List.isEmpty_iff.mp he
      rw [this, List.append_nil] at hp
      exact ⟨hp, hg⟩
    · refine ⟨by simp only [List.flatten_append, List.flatten_cons, List.flatten_nil, List.append_nil]; exact hp, ?_⟩
      intro g hgm
      rcases List.mem_append.mp hgm with h1 | h1
      · exact hg g h1
      · simp only [List.mem_singleton] at h1; subst h1; exact good_of_contig cs _ hc

/-- **C15 fetch**: the bytes handed to the decompressor are the selected nodes' chunks one after the
    other, in the order of the chunk table — whatever the chunk layout of the file (any order, gaps,
    empty nodes), however the nodes were grouped into read requests -/
theorem C15_fetch (file : List UInt8) (nodes : List Node) :
    fetchAll file (byteQueries (groupNodes nodes)) = nodes.flatMap (nodeBytes file) ∧
    chunkTable (groupNodes nodes).flatten = nodes.map (fun n => (n.count, n.byteSize)) := by
  obtain ⟨h1, h2⟩ := groupNodes_spec nodes
  refine ⟨?_, by rw [h1]; rfl⟩
  rw [fetch_groups file _ h2, h1]

end LasModel.Props.C15
