/-
C15 — COPC queries return exactly the points the octree stores in the box and levels.
Traversal part (core Lean only): invariants of `loop`, the recursive reading `collect`, the
selected-node characterisation, malformed hierarchies. Geometry and arithmetic: Props/C15Geo.lean.
-/
import LasModel.Model.Copc
namespace LasModel.Props.C15
open LasModel.Copc Gen.Copc

/-- every binding of the dictionary comes from the root page or from a page of the file -/
def Sub (H : Hier) (es : Page) : Prop := ∀ x ∈ es, x ∈ H.root ∨ ∃ p ∈ H.pages, x ∈ p.2

theorem lookup_mem {es : Page} {k : Key} {e : Entry} (h : lookup es k = some e) : (k, e) ∈ es := by
  induction es with
  | nil => cases h
  | cons x xs ih =>
    obtain ⟨j, e'⟩ := x
    simp only [lookup] at h
    split at h
    · next hj => cases h; subst hj; exact List.mem_cons_self
    · exact List.mem_cons_of_mem _ (ih h)

theorem mem_refsOf {p : Page} {k : Key} {e : Entry} (h : (k, e) ∈ p) (hc : e.count = -1) :
    (e.offset, e.byteSize) ∈ refsOf p := by
  induction p with
  | nil => cases h
  | cons x xs ih =>
    simp only [refsOf]
    cases h with
    | head => simp [hc]
    | tail _ h => split <;> simp [ih h]

theorem mem_refsOfPages {ps : List (Ref × Page)} {p : Ref × Page} (hp : p ∈ ps) {r : Ref} (h : r ∈ refsOf p.2) :
    r ∈ refsOfPages ps := by
  induction ps with
  | nil => cases hp
  | cons x xs ih =>
    simp only [refsOfPages, List.mem_append]
    cases hp with
    | head => exact Or.inl h
    | tail _ hp => exact Or.inr (ih hp)

theorem sub_ref {H : Hier} {es : Page} (hs : Sub H es) {k : Key} {e : Entry} (h : lookup es k = some e)
    (hc : e.count = -1) : (e.offset, e.byteSize) ∈ allRefs H := by
  unfold allRefs
  rw [List.mem_append]
  rcases hs _ (lookup_mem h) with h1 | ⟨p, hp, h2⟩
  · exact Or.inl (mem_refsOf h1 hc)
  · exact Or.inr (mem_refsOfPages hp (mem_refsOf h2 hc))

theorem findPage_sub (ps : List (Ref × Page)) (r : Ref) : ∀ x ∈ findPage ps r, ∃ p ∈ ps, x ∈ p.2 := by
  induction ps with
  | nil => intro x hx; cases hx
  | cons p ps ih =>
    intro x hx
    simp only [findPage] at hx
    split at hx
    · exact ⟨p, List.mem_cons_self, hx⟩
    · obtain ⟨p', hp', h⟩ := ih x hx
      exact ⟨p', List.mem_cons_of_mem _ hp', h⟩

theorem sub_update {H : Hier} {es : Page} (hs : Sub H es) (r : Ref) : Sub H (update es (pageAt H r)) := by
  intro x hx
  unfold update at hx
  rw [List.mem_append, List.mem_reverse] at hx
  rcases hx with h | h
  · exact Or.inr (findPage_sub _ _ x h)
  · exact hs x h

theorem le_maxLevelOf {p : Page} {x : Key × Entry} (h : x ∈ p) : x.1.level ≤ maxLevelOf p := by
  induction p with
  | nil => cases h
  | cons y ys ih =>
    simp only [maxLevelOf]
    cases h with
    | head => omega
    | tail _ h => have := ih h; omega

theorem le_depthPages {ps : List (Ref × Page)} {p : Ref × Page} (hp : p ∈ ps) : maxLevelOf p.2 ≤ depthPages ps := by
  induction ps with
  | nil => cases hp
  | cons y ys ih =>
    simp only [depthPages]
    cases hp with
    | head => omega
    | tail _ h => have := ih h; omega

/-- a key deeper than every record of the file has no binding: the extra test in the model's loop
    never changes the outcome -/
theorem lookup_deep {H : Hier} {es : Page} (hs : Sub H es) {k : Key} (hk : depth H < k.level) : lookup es k = none := by
  cases h : lookup es k with
  | none => rfl
  | some e =>
    exfalso
    unfold depth at hk
    rcases hs _ (lookup_mem h) with h1 | ⟨p, hp, h2⟩
    · have := le_maxLevelOf h1; simp only at this; omega
    · have := le_maxLevelOf h2; have := le_depthPages hp; simp only at *; omega

/-- the guard `impossible` of the model is never taken -/
theorem C15_reachable (H : Hier) (q : Query) (st : St) (hs : Sub H st.entries) :
    loop H q st ≠ .error "impossible" := by
  fun_induction loop H q st with
  | case1 => simp
  | case2 x k rest h1 h2 ih => exact ih hs
  | case3 x k rest h1 h2 h3 ih => exact ih hs
  | case4 x k rest h1 h2 h3 h4 ih => exact ih hs
  | case5 x k rest h1 h2 h3 h4 h5 ih => exact ih hs
  | case6 => simp
  | case7 => simp
  | case8 x k rest h1 h2 h3 h4 e h5 h6 h7 h8 entries h9 ih => exact ih (sub_update hs _)
  | case9 x k rest h1 h2 h3 h4 e h5 h6 h7 h8 => exact absurd (sub_ref hs h5 h6) h8
  | case10 x k rest h1 h2 h3 h4 e h5 h6 h7 ih => exact ih hs
  | case11 x k rest h1 h2 h3 h4 e h5 h6 h7 ih => exact ih hs

/-- the recursive reading of the traversal: a node is visited when its cube overlaps, its level is not
    beyond the range and it has a record; its children are visited when it holds data -/
def collect (H : Hier) (q : Query) (es : Page) : Nat → Key → List Node
  | 0, _ => []
  | f + 1, k =>
    if q.ov k = false then []
    else if q.cut k.level = true then []
    else if depth H < k.level then []
    else match lookup es k with
      | none => []
      | some e =>
        if 0 ≤ e.count then
          addOut q [] ⟨k, e.offset, e.byteSize, e.count⟩ ++ (childrenRev k).flatMap (collect H q es f)
        else addOut q [] ⟨k, 0, 0, 0⟩

def fuelOf (H : Hier) (k : Key) : Nat := depth H + 1 - k.level

def collectAll (H : Hier) (q : Query) (es : Page) (todo : List Key) : List Node :=
  todo.flatMap (fun k => collect H q es (fuelOf H k) k)

def NoRefs (es : Page) : Prop := ∀ k e, lookup es k = some e → e.count ≠ -1

theorem addOut_eq (q : Query) (out : List Node) (n : Node) : addOut q out n = out ++ addOut q [] n := by
  unfold addOut; split <;> simp

theorem collectAll_cons (H : Hier) (q : Query) (es : Page) (k : Key) (rest : List Key) :
    collectAll H q es (k :: rest) = collect H q es (fuelOf H k) k ++ collectAll H q es rest := by
  simp [collectAll]

theorem collectAll_append (H : Hier) (q : Query) (es : Page) (a b : List Key) :
    collectAll H q es (a ++ b) = collectAll H q es a ++ collectAll H q es b := by
  simp [collectAll]

theorem fuel_child (H : Hier) (k : Key) (d : Nat) (h : ¬ depth H < k.level) :
    fuelOf H k = fuelOf H (child k d) + 1 := by
  unfold fuelOf; simp only [child]; omega

theorem collectAll_children (H : Hier) (q : Query) (es : Page) (k : Key) (f : Nat)
    (h : ∀ d, fuelOf H (child k d) = f) :
    collectAll H q es (childrenRev k) = (childrenRev k).flatMap (collect H q es f) := by
  simp only [collectAll, childrenRev, List.flatMap_map]
  simp [h]

/-- **the traversal computes `collect`** when the dictionary holds no page reference (single-page
    hierarchies, or every needed page already merged by an earlier query): same nodes, same order -/
theorem loop_collect (H : Hier) (q : Query) (st : St) (hn : NoRefs st.entries) :
    loop H q st = .ok { st with todo := [], out := st.out ++ collectAll H q st.entries st.todo } := by
  fun_induction loop H q st with
  | case1 x h => cases x; simp_all [collectAll]
  | case2 x k rest h1 h2 ih =>
    rw [ih hn, h1, collectAll_cons]
    have : collect H q x.entries (fuelOf H k) k = [] := by
      cases hf : fuelOf H k <;> simp [collect, h2]
    simp [this]
  | case3 x k rest h1 h2 h3 ih =>
    rw [ih hn, h1, collectAll_cons]
    have : collect H q x.entries (fuelOf H k) k = [] := by
      cases hf : fuelOf H k <;> simp [collect, h3]
    simp [this]
  | case4 x k rest h1 h2 h3 h4 ih =>
    rw [ih hn, h1, collectAll_cons]
    have : collect H q x.entries (fuelOf H k) k = [] := by
      cases hf : fuelOf H k <;> simp [collect, h4]
    simp [this]
  | case5 x k rest h1 h2 h3 h4 h5 ih =>
    rw [ih hn, h1, collectAll_cons]
    have : collect H q x.entries (fuelOf H k) k = [] := by
      cases hf : fuelOf H k <;> simp [collect, h5]
    simp [this]
  | case6 x k rest h1 h2 h3 h4 e h5 h6 => exact absurd h6 (hn k e h5)
  | case7 x k rest h1 h2 h3 h4 e h5 h6 => exact absurd h6 (hn k e h5)
  | case8 x k rest h1 h2 h3 h4 e h5 h6 => exact absurd h6 (hn k e h5)
  | case9 x k rest h1 h2 h3 h4 e h5 h6 => exact absurd h6 (hn k e h5)
  | case10 x k rest h1 h2 h3 h4 e h5 h6 h7 ih =>
    rw [ih hn, h1, collectAll_cons, collectAll_append]
    have hf := fuel_child H k 0 h4
    have hc : collect H q x.entries (fuelOf H k) k =
        addOut q [] ⟨k, e.offset, e.byteSize, e.count⟩ ++ (childrenRev k).flatMap (collect H q x.entries (fuelOf H (child k 0))) := by
      rw [hf]; simp [collect, h2, h3, h4, h5, h7]
    rw [hc, collectAll_children H q x.entries k (fuelOf H (child k 0)) (fun d => by unfold fuelOf; simp [child])]
    simp only [St.mk.injEq, true_and, Except.ok.injEq]
    rw [addOut_eq]
    simp [List.append_assoc]
  | case11 x k rest h1 h2 h3 h4 e h5 h6 h7 ih =>
    rw [ih hn, h1, collectAll_cons]
    have hf := fuel_child H k 0 h4
    have hc : collect H q x.entries (fuelOf H k) k = addOut q [] ⟨k, 0, 0, 0⟩ := by
      rw [hf]; simp [collect, h2, h3, h4, h5, h7]
    rw [hc]
    simp only [St.mk.injEq, true_and, Except.ok.injEq]
    rw [addOut_eq]
    simp [List.append_assoc]

def HasData (es : Page) (k : Key) : Prop := ∃ e, lookup es k = some e ∧ 0 ≤ e.count

def Good (es : Page) (q : Query) (k : Key) : Prop := q.ov k = true ∧ q.cut k.level = false ∧ HasData es k

/-- `Path k j`: `j` is `k` or below it, and every node strictly above `j` on the way down from `k`
    overlaps, is not cut, and holds data (so its children were queued) -/
inductive Path (es : Page) (q : Query) : Key → Key → Prop
  | here (k : Key) : Path es q k k
  | down {k j : Key} (d : Nat) : d < 8 → Good es q k → Path es q (child k d) j → Path es q k j

/-- the same with the data condition only (the octree's own parent chain) -/
inductive Anc (es : Page) : Key → Key → Prop
  | here (k : Key) : Anc es k k
  | down {k j : Key} (d : Nat) : d < 8 → HasData es k → Anc es (child k d) j → Anc es k j

def nodeOf (j : Key) (e : Entry) : Node := if 0 ≤ e.count then ⟨j, e.offset, e.byteSize, e.count⟩ else ⟨j, 0, 0, 0⟩

theorem nodeOf_key (j : Key) (e : Entry) : (nodeOf j e).key = j := by unfold nodeOf; split <;> rfl

theorem path_level {es : Page} {q : Query} {k j : Key} (h : Path es q k j) : k.level ≤ j.level := by
  induction h with
  | here => exact Nat.le_refl _
  | down d _ _ _ ih => simp only [child] at ih; omega

theorem mem_childrenRev (k : Key) (d : Nat) (h : d < 8) : child k d ∈ childrenRev k := by
  unfold childrenRev
  refine List.mem_map.mpr ⟨d, ?_, rfl⟩
  simp only [List.mem_cons, List.mem_nil_iff, or_false]
  omega

theorem of_mem_childrenRev {k c : Key} (h : c ∈ childrenRev k) : ∃ d, d < 8 ∧ c = child k d := by
  unfold childrenRev at h
  obtain ⟨d, hd, rfl⟩ := List.mem_map.mp h
  refine ⟨d, ?_, rfl⟩
  simp only [List.mem_cons, List.mem_nil_iff, or_false] at hd
  omega

theorem mem_addOut (q : Query) (n m : Node) : n ∈ addOut q [] m ↔ q.inRange m.key.level = true ∧ n = m := by
  unfold addOut; split <;> simp_all

/-- membership in `collect`, with enough fuel -/
theorem mem_collect (H : Hier) (q : Query) (es : Page) (hs : Sub H es) (f : Nat) (k : Key)
    (hf : depth H + 1 - k.level ≤ f) (n : Node) :
    n ∈ collect H q es f k ↔
      ∃ j e, Path es q k j ∧ q.ov j = true ∧ q.cut j.level = false ∧ lookup es j = some e ∧
        q.inRange j.level = true ∧ n = nodeOf j e := by
  induction f generalizing k with
  | zero =>
    simp only [collect, List.not_mem_nil, false_iff]
    rintro ⟨j, e, hp, _, _, hl, _, _⟩
    have := path_level hp
    have hd : depth H < j.level := by omega
    rw [lookup_deep hs hd] at hl
    cases hl
  | succ f ih =>
    constructor
    · intro hn
      simp only [collect] at hn
      split at hn
      · cases hn
      · next h1 =>
        split at hn
        · cases hn
        · next h2 =>
          split at hn
          · cases hn
          · next h3 =>
            split at hn
            · cases hn
            · next e he =>
              split at hn
              · next hc =>
                rw [List.mem_append] at hn
                rcases hn with hn | hn
                · rw [mem_addOut] at hn
                  exact ⟨k, e, .here k, by simpa using h1, by simpa using h2, he, hn.1, by rw [hn.2]; simp [nodeOf, hc]⟩
                · obtain ⟨c, hc1, hc2⟩ := List.mem_flatMap.mp hn
                  obtain ⟨d, hd, rfl⟩ := of_mem_childrenRev hc1
                  obtain ⟨j, e', hp, r⟩ := (ih (child k d) (by simp only [child]; omega)).mp hc2
                  exact ⟨j, e', .down d hd ⟨by simpa using h1, by simpa using h2, e, he, hc⟩ hp, r⟩
              · next hc =>
                rw [mem_addOut] at hn
                exact ⟨k, e, .here k, by simpa using h1, by simpa using h2, he, hn.1, by rw [hn.2]; simp [nodeOf, hc]⟩
    · rintro ⟨j, e, hp, h1, h2, hl, hr, rfl⟩
      cases hp with
      | here =>
        have hd : ¬ depth H < k.level := by
          intro hd; rw [lookup_deep hs hd] at hl; cases hl
        simp only [collect, h1, h2, hd, hl]
        simp only [Bool.true_eq_false, if_false, Bool.false_eq_true]
        by_cases hc : 0 ≤ e.count
        · simp only [hc, if_true, List.mem_append]
          left
          rw [mem_addOut]
          exact ⟨hr, by simp [nodeOf, hc]⟩
        · simp only [hc, if_false]
          rw [mem_addOut]
          exact ⟨hr, by simp [nodeOf, hc]⟩
      | down d hd hg hp' =>
        obtain ⟨g1, g2, e0, g3, g4⟩ := hg
        have hdp : ¬ depth H < k.level := by
          intro hd; rw [lookup_deep hs hd] at g3; cases g3
        simp only [collect, g1, g2, hdp, g3, g4]
        simp only [Bool.true_eq_false, if_false, Bool.false_eq_true, if_true, List.mem_append]
        right
        refine List.mem_flatMap.mpr ⟨child k d, mem_childrenRev k d hd, ?_⟩
        exact (ih (child k d) (by simp only [child]; omega)).mpr ⟨j, e, hp', h1, h2, hl, hr, rfl⟩

/-- pruning is monotone: a child's cube lies in its parent's, and levels beyond the range stay beyond -/
structure Mono (q : Query) : Prop where
  ov : ∀ k d, d < 8 → q.ov (child k d) = true → q.ov k = true
  cut : ∀ l, q.cut l = true → q.cut (l + 1) = true

theorem anc_ov {es : Page} {q : Query} (hm : Mono q) {k j : Key} (h : Anc es k j) :
    q.ov j = true → q.ov k = true := by
  induction h with
  | here => exact id
  | down d hd _ _ ih => intro hj; exact hm.ov _ d hd (ih hj)

theorem anc_cut {es : Page} {q : Query} (hm : Mono q) {k j : Key} (h : Anc es k j) :
    q.cut j.level = false → q.cut k.level = false := by
  induction h with
  | here => exact id
  | down d hd _ _ ih =>
    intro hj
    have h1 := ih hj
    cases hc : q.cut _ with
    | false => rfl
    | true => have := hm.cut _ hc; simp only [child] at h1; rw [this] at h1; cases h1

/-- **pruning loses nothing**: a node whose parents all hold data is reached as soon as it overlaps
    the box and is not beyond the range itself -/
theorem anc_path {es : Page} {q : Query} (hm : Mono q) {k j : Key} (h : Anc es k j)
    (h1 : q.ov j = true) (h2 : q.cut j.level = false) : Path es q k j := by
  induction h with
  | here => exact .here _
  | down d hd hdat ha ih =>
    have hcut : q.cut _ = false := anc_cut hm (.down d hd hdat ha) h2
    exact .down d hd ⟨hm.ov _ d hd (anc_ov hm ha h1), hcut, hdat⟩ (ih h1 h2)

theorem path_anc {es : Page} {q : Query} {k j : Key} (h : Path es q k j) : Anc es k j := by
  induction h with
  | here => exact .here _
  | down d hd hg _ ih => exact .down d hd hg.2.2 ih

theorem sub_root (H : Hier) : Sub H H.root := fun _ hx => Or.inl hx

/-- **C15 nodes (partial: no page reference left to follow)**: on every hierarchy whose dictionary
    holds no reference — any depth, sparsity, empty nodes — the traversal succeeds and returns exactly
    the nodes that are selected: the parents all hold data, the cube overlaps the box, the level is in
    the range -/
theorem C15_nodes_partial (H : Hier) (q : Query) (hm : Mono q) (hn : NoRefs H.root)
    (hr : ∀ l, q.inRange l = true → q.cut l = false) :
    ∃ st, load H q = .ok st ∧ st.todo = [] ∧
      ∀ n, n ∈ st.out ↔ ∃ j e, Anc H.root rootKey j ∧ q.ov j = true ∧ q.inRange j.level = true ∧
        lookup H.root j = some e ∧ n = nodeOf j e := by
  refine ⟨_, loop_collect H q _ hn, rfl, ?_⟩
  intro n
  simp only [List.nil_append, collectAll, List.flatMap_cons, List.flatMap_nil, List.append_nil]
  rw [mem_collect H q H.root (sub_root H) _ rootKey (by unfold fuelOf; omega)]
  constructor
  · rintro ⟨j, e, hp, h1, _, hl, hrg, rfl⟩
    exact ⟨j, e, path_anc hp, h1, hrg, hl, rfl⟩
  · rintro ⟨j, e, ha, h1, hrg, hl, rfl⟩
    exact ⟨j, e, anc_path hm ha h1 (hr _ hrg), h1, hr _ hrg, hl, hrg, rfl⟩

/-- **a page that is referenced again fails the query** (this is what stops every reference cycle) -/
theorem C15_malformed_revisit (H : Hier) (q : Query) (es : Page) (k : Key) (rest : List Key) (vis : List Ref)
    (out : List Node) (e : Entry) (h1 : q.ov k = true) (h2 : q.cut k.level = false) (h3 : ¬ depth H < k.level)
    (hl : lookup es k = some e) (hc : e.count = -1) (hv : (e.offset, e.byteSize) ∈ vis) :
    loop H q ⟨es, k :: rest, vis, out⟩ = .error "malformed" := by
  rw [loop]
  simp [h1, h2, h3, hl, hc, hv]

/-- **a referenced page that does not define the node with data fails the query** -/
theorem C15_malformed_undefined (H : Hier) (q : Query) (es : Page) (k : Key) (rest : List Key) (vis : List Ref)
    (out : List Node) (e : Entry) (h1 : q.ov k = true) (h2 : q.cut k.level = false)
    (hs : Sub H es) (hl : lookup es k = some e) (hc : e.count = -1)
    (hu : ∀ e', lookup (update es (pageAt H (e.offset, e.byteSize))) k = some e' → e'.count = -1) :
    loop H q ⟨es, k :: rest, vis, out⟩ = .error "malformed" := by
  have h3 : ¬ depth H < k.level := by
    intro hd; rw [lookup_deep hs hd] at hl; cases hl
  have hr := sub_ref hs hl hc
  have hk : ∃ e', lookup (update es (pageAt H (e.offset, e.byteSize))) k = some e' := by
    unfold update
    generalize (pageAt H (e.offset, e.byteSize)).reverse = p
    induction p with
    | nil => exact ⟨e, hl⟩
    | cons x xs ih =>
      obtain ⟨j, e0⟩ := x
      simp only [List.cons_append, lookup]
      split
      · exact ⟨e0, rfl⟩
      · exact ih
  obtain ⟨e', he'⟩ := hk
  rw [loop]
  by_cases hv : (e.offset, e.byteSize) ∈ vis
  · simp [h1, h2, h3, hl, hc, hv]
  · simp [h1, h2, h3, hl, hc, hv, hr, he', hu e' he']

/-- every outcome is a node list or the error `malformed` -/
theorem C15_outcomes (H : Hier) (q : Query) : (∃ st, load H q = .ok st ∧ st.todo = []) ∨ load H q = .error "malformed" := by
  have key : ∀ st : St, (∃ st', loop H q st = .ok st' ∧ st'.todo = []) ∨ loop H q st = .error "malformed" ∨ loop H q st = .error "impossible" := by
    intro st
    fun_induction loop H q st with
    | case1 x h => exact Or.inl ⟨x, rfl, h⟩
    | case2 _ _ _ _ _ ih => exact ih
    | case3 _ _ _ _ _ _ ih => exact ih
    | case4 _ _ _ _ _ _ _ ih => exact ih
    | case5 _ _ _ _ _ _ _ _ ih => exact ih
    | case6 => exact Or.inr (Or.inl rfl)
    | case7 => exact Or.inr (Or.inl rfl)
    | case8 _ _ _ _ _ _ _ _ _ _ _ _ _ _ ih => exact ih
    | case9 => exact Or.inr (Or.inr rfl)
    | case10 _ _ _ _ _ _ _ _ _ _ _ ih => exact ih
    | case11 _ _ _ _ _ _ _ _ _ _ _ ih => exact ih
  rcases key ⟨H.root, [rootKey], [], []⟩ with h | h | h
  · exact Or.inl h
  · exact Or.inr h
  · exact absurd h (C15_reachable H q _ (sub_root H))

end LasModel.Props.C15

namespace LasModel.Props.C15
open LasModel.Copc Gen.Copc

/-- non-vacuity: a two-level hierarchy without references meets the hypotheses of
    `C15_nodes_partial`, and a self-referencing root meets those of `C15_malformed_revisit`'s
    first step (`C15_malformed_undefined`) -/
example : NoRefs [(rootKey, ⟨100, 60, 2⟩), (child rootKey 3, ⟨160, 30, 1⟩)] := by
  intro k e h
  simp only [lookup] at h
  split at h
  · cases h; decide
  · split at h
    · cases h; decide
    · cases h

example : Mono (noRangeQuery (fun _ => true)) := ⟨fun _ _ _ _ => rfl, fun _ h => by cases h⟩

example : let H : Hier := ⟨[(rootKey, ⟨500, 32, -1⟩)], [((500, 32), [(rootKey, ⟨500, 32, -1⟩)])]⟩
    Sub H H.root ∧ lookup H.root rootKey = some ⟨500, 32, -1⟩ ∧
      ∀ e', lookup (update H.root (pageAt H (500, 32))) rootKey = some e' → e'.count = -1 := by
  refine ⟨fun _ hx => Or.inl hx, rfl, ?_⟩
  intro e' h
  simp [update, pageAt, findPage, lookup] at h
  subst h; rfl

end LasModel.Props.C15
