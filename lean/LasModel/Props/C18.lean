/-
C18 — stream ownership (closefd) is honoured on every path, including failures.
-/
import LasModel.Model.Streams

namespace LasModel.Props.C18
open LasModel.Streams

inductive ROp | points (n : Nat) | all
deriving DecidableEq, Repr

def runR (r : Reader) : List ROp → Reader
  | [] => r
  | .points n :: ops => runR (readPoints r n) ops
  | .all :: ops => runR (readAll r) ops

theorem call_closed (s : Stream) (c : Call) : (s.call c).closed = s.closed := rfl

theorem readHeader_closed (s : Stream) (f : FileInfo) (b : Bool) : (readHeader s f b).1.closed = s.closed := by
  unfold readHeader
  simp only
  split
  · rfl
  · split
    · rfl
    · split
      · split
        · split <;> rfl
        · rfl
      · rfl

theorem readPoints_closed (r : Reader) (n : Nat) :
    (readPoints r n).stream.closed = r.stream.closed ∧ (readPoints r n).closefd = r.closefd := by
  unfold readPoints
  simp only
  split
  · exact ⟨rfl, rfl⟩
  · exact ⟨rfl, rfl⟩

theorem readAll_closed (r : Reader) :
    (readAll r).stream.closed = r.stream.closed ∧ (readAll r).closefd = r.closefd := by
  unfold readAll
  obtain ⟨h1, h2⟩ := readPoints_closed r (r.file.nPoints - r.pointsRead)
  simp only
  split
  · split
    · exact ⟨h1, h2⟩
    · exact ⟨h1, h2⟩
  · exact ⟨h1, h2⟩

theorem runR_closed (r : Reader) (ops : List ROp) :
    (runR r ops).stream.closed = r.stream.closed ∧ (runR r ops).closefd = r.closefd := by
  induction ops generalizing r with
  | nil => exact ⟨rfl, rfl⟩
  | cons op ops ih =>
    cases op with
    | points n =>
      obtain ⟨a, b⟩ := readPoints_closed r n
      obtain ⟨c, d⟩ := ih (readPoints r n)
      exact ⟨by simp only [runR]; rw [c, a], by simp only [runR]; rw [d, b]⟩
    | all =>
      obtain ⟨a, b⟩ := readAll_closed r
      obtain ⟨c, d⟩ := ih (readAll r)
      exact ⟨by simp only [runR]; rw [c, a], by simp only [runR]; rw [d, b]⟩

/-- **reading**: whatever the file (valid, bad signature, truncated, incoherent), whatever is
    read before leaving the context — nothing, some points, everything including deferred EVLRs —
    the stream ends up closed if and only if closefd is true; a failed open closes it iff
    closefd -/
theorem C18_read (s : Stream) (hs : s.closed = false) (f : FileInfo) (closefd readEvlrs : Bool) (ops : List ROp) :
    (∀ s', openRead s f closefd readEvlrs = .error s' → s'.closed = closefd) ∧
    (∀ r, openRead s f closefd readEvlrs = .ok r → (closeReader (runR r ops)).closed = closefd) := by
  have hh := readHeader_closed s f readEvlrs
  unfold openRead
  cases hr : readHeader s f readEvlrs with
  | mk s1 rest =>
    obtain ⟨fl, ld⟩ := rest
    rw [hr] at hh
    simp only at hh
    cases fl with
    | none =>
      refine ⟨(by intro s' h; cases h), ?_⟩
      intro r h
      injection h with h
      subst h
      obtain ⟨a, b⟩ := runR_closed ⟨s1, closefd, f, ld, false, 0⟩ ops
      unfold closeReader
      rw [b]
      cases closefd
      · simp only [Bool.false_eq_true, if_false]; rw [a, hh, hs]
      · simp [Stream.close]
    | laspy =>
      refine ⟨?_, (by intro r h; cases h)⟩
      intro s' h
      injection h with h
      subst h
      cases closefd
      · simp only [Bool.false_eq_true, if_false]; rw [hh, hs]
      · simp [Stream.close]
    | other =>
      refine ⟨?_, (by intro r h; cases h)⟩
      intro s' h
      injection h with h
      subst h
      cases closefd
      · simp only [Bool.false_eq_true, if_false]; rw [hh, hs]
      · simp [Stream.close]

/-- after a file is opened for reading the stream is positioned at the first point record,
    whether or not the EVLRs were loaded (loading restores the position) -/
theorem C18_position (s : Stream) (f : FileInfo) (closefd readEvlrs : Bool) (r : Reader)
    (h : openRead s f closefd readEvlrs = .ok r) : r.stream.pos = f.offset := by
  unfold openRead at h
  cases hr : readHeader s f readEvlrs with
  | mk s1 rest =>
    obtain ⟨fl, ld⟩ := rest
    rw [hr] at h
    cases fl with
    | none =>
      injection h with h
      subst h
      unfold readHeader at hr
      simp only at hr
      split at hr
      · cases hr
      · split at hr
        · cases hr
        · split at hr
          · split at hr
            · split at hr
              · injection hr with h1 _; rw [← h1]; rfl
              · injection hr with h1 _; rw [← h1]; first | rfl | done
            · injection hr with h1 _; rw [← h1]; first | rfl | done
          · injection hr with h1 _; rw [← h1]; first | rfl | done
    | laspy => cases h
    | other => cases h

/-- **writing**: compatible or not, body raising or not: closed iff closefd -/
theorem C18_write (s : Stream) (hs : s.closed = false) (closefd compatible bodyRaises : Bool) :
    (writeSession s closefd compatible bodyRaises).closed = closefd := by
  unfold writeSession
  cases closefd <;> cases compatible <;> cases bodyRaises <;> simp [Stream.close, Stream.call, hs]

/-- **writing EVLRs too** (LAS 1.4): points written or not, body raising afterwards or not: closed iff closefd -/
theorem C18_write_evlrs (s : Stream) (hs : s.closed = false) (closefd pointsWritten bodyRaises : Bool) :
    (writeSessionEvlrs s closefd pointsWritten bodyRaises).closed = closefd := by
  unfold writeSessionEvlrs
  cases closefd <;> cases pointsWritten <;> simp [Stream.close, Stream.call, hs]

/-- **`laspy.read`**: opening fails, reading fails after the header was accepted (no point source, or the source raises
    inside the point block), or everything is read: the stream is closed iff closefd -/
theorem C18_read_las (s : Stream) (hs : s.closed = false) (f : FileInfo) (closefd : Bool) (late : LateFailure) :
    (readLas s f closefd late).1.closed = closefd := by
  obtain ⟨he, hk⟩ := C18_read s hs f closefd true [.all]
  unfold readLas
  cases ho : openRead s f closefd true with
  | error s' => exact he s' ho
  | ok r =>
    have hall := hk r ho
    simp only [runR] at hall
    have hr : r.stream.closed = false ∧ r.closefd = closefd := by
      have hh := readHeader_closed s f true
      unfold openRead at ho
      cases hq : readHeader s f true with
      | mk s1 rest =>
        obtain ⟨fl, ld⟩ := rest
        rw [hq] at ho hh
        cases fl with
        | none => injection ho with ho; subst ho; exact ⟨by rw [hh, hs], rfl⟩
        | laspy => cases ho
        | other => cases ho
    simp only
    split
    · exact hall
    · cases late with
      | none => exact hall
      | source =>
        unfold closeReader
        rw [hr.2]
        cases closefd
        · simp only [Bool.false_eq_true, if_false]; exact hr.1
        · simp [Stream.close]
      | read =>
        unfold closeReader
        simp only [hr.2]
        cases closefd
        · simp only [Bool.false_eq_true, if_false]; split <;> exact hr.1
        · simp [Stream.close]

/-- `LasData.write` never closes the caller's stream -/
theorem C18_lasdata_write (s : Stream) : (lasDataWrite s).closed = s.closed := by
  unfold lasDataWrite writeSession
  simp [Stream.call]

/-- **appending**: non-seekable destination, invalid content, unusable (unwritable) header,
    exception in the body, normal exit: closed iff closefd -/
theorem C18_append (s : Stream) (hs : s.closed = false) (f : FileInfo) (closefd bodyRaises : Bool) :
    (appendSession s f closefd bodyRaises).1.closed = closefd := by
  unfold appendSession
  simp only
  split
  · cases closefd <;> simp [Stream.close, Stream.call, hs]
  · have hh := readHeader_closed (s.call .seekable) f false
    cases hr : readHeader (s.call .seekable) f false with
    | mk s1 rest =>
      obtain ⟨fl, ld⟩ := rest
      rw [hr] at hh
      simp only at hh
      have h1 : s1.closed = false := by rw [hh]; exact hs
      cases fl <;> cases closefd <;> cases hwr : f.writable <;> cases bodyRaises <;>
        by_cases hev : f.minor4 = true ∧ 0 < f.nEvlrs <;>
        simp [hev, Stream.call, Stream.close, h1]


/-- non-vacuity: an open stream and a valid file meet the hypotheses of `C18_read` / `C18_append`; opening succeeds -/
example : let s : Stream := ⟨true, true, 0, false, []⟩
    s.closed = false ∧ ∃ r, openRead s ⟨true, true, true, true, true, 5, 2, 375, 30⟩ true true = .ok r :=
  ⟨rfl, _, rfl⟩

end LasModel.Props.C18
