#!/usr/bin/env python3
"""Regenerates MANIFEST.json from the table below (kept in one place so that it stays valid)."""
import json, os
HERE = os.path.dirname(os.path.abspath(__file__))
props = [json.loads(l) for l in open(os.path.join(HERE, "properties.jsonl"))]

CLAIMED = {
    "C20": dict(
        engine="bits",
        technique="Lean 4 proof (testBit extensionality, induction over assignment histories) about functions generated from GlobalEncoding's AST; exhaustive translation validation",
        text="Lean theorems for every natural-number field value, every flag, both targets and every assignment history, stated about definitions regenerated from the AST of laspy.header.GlobalEncoding on each run; the generated functions are validated exhaustively (65,536 x 5 x 2) against the real class, and the property is also run exhaustively on the class itself. A universal bit-level claim over a tiny pure function: proof is the right level and is complete here.",
        note="Trusted: Lean kernel; translator (AST subset; a & ~b emitted as a ^^^ (a &&& b)); CPython int semantics. Header placement of the field at byte 6 is checked by correspondence (header round trips), not proved here (see C07).",
        design="6 (C20)"),
    "C09": dict(
        engine="bits",
        technique="Lean 4 proof: kernel evaluation (decide +kernel) over the complete finite space mask x byte x value of the generated sub-field table, testBit lemmas for sibling isolation, induction for scatter frames and assignment histories; exhaustive correspondence",
        text="The single-byte claims (read-after-write, isolation, siblings untouched, lsb/mask table sanity) are Lean theorems over the masks regenerated from dims.COMPOSED_FIELDS, covering all 256 prior bytes and every in-range value, i.e. the property's literal quantifier; frame, last-write-wins and the history theorem are proved by induction for all columns, index lists and operation sequences. The model's assignCol is run against SubFieldView.__setitem__ exhaustively at byte level and on seeded histories over all index/value kinds.",
        note="Trusted: Lean kernel; translator tables; numpy fancy-index resolution (the harness resolves index expressions with numpy before handing positions to the model); numpy casting of the shifted value to u1. Loud failures outside the property (scalar given to a whole-dimension assignment, size-1 sequence to an int index) are skipped and counted.",
        design="6 (C09)"),
    "C10": dict(
        engine="bits",
        technique="Lean 4 proof of the views' own logic (sub-field comparison for every integer constant, index/scale selection, min/max monotonicity) + differential correspondence against numpy for the delegated operators",
        text="Theorems: the fast-path comparison of SubFieldView equals the comparison of the unpacked field value for every table mask, byte, operator and integer constant of any magnitude or sign (finite core by kernel evaluation, lifted by arithmetic); indexing commutes with materialisation; element-position indexing of scaled multi-element views uses that element's scale/offset; the views' min/max equal the extrema of the materialised values for every positive scale (exact arithmetic). Operators that ArrayView forwards to numpy are delegations: they are checked differentially against numpy itself (exhaustive for comparisons over constants and numpy scalar dtypes, seeded for the rest). Partial: numpy's operator semantics are not modelled.",
        note="Trusted: Lean kernel; translator tables; numpy as the reference for delegated operators; IEEE monotonicity of x*s+o for s>0 (min/max on float64 follows from it; exact-arithmetic version is the theorem). Expressions that numpy rejects or that raise on the view are skipped and counted.",
        design="6 (C10)"),
    "C08": dict(
        engine="codec",
        technique="Lean 4 proof of the VLR/EVLR framing round trip (induction over the record list, string-field and little-endian lemmas) and of normal-form idempotence for the known record types; byte-exact correspondence with VLRList.write_to/read_from",
        text="Theorems for every list of well-formed records (ids up to the full 16 bytes, descriptions up to 32, any payload; 2-byte length for VLRs, 8-byte for EVLRs): the written bytes are read back as the same list in order and the reader consumes exactly header+payload bytes; an over-long VLR payload makes the whole write fail; for each known type the re-serialised payload is a fixed point of parse-then-serialise (content stable), three types are exact inverses, and unparsable or unknown records are kept verbatim. The model's encoder/decoder are compared byte for byte with the real classes on seeded record lists, known-type payloads well-formed and malformed, and through file round trips. Partial: idempotence for the classification lookup is validated by correspondence only (no theorem yet).",
        note="Trusted: Lean kernel; generated field widths; ASCII restriction of the generator for WKT / lookup names (UTF-8 validity is modelled as ASCII-only; invalid sequences are exercised as malformed); ids ('copc',1) and ('copc',1000) reserved (COPC classes refuse to serialise).",
        design="6 (C08)"),
    "C07": dict(
        engine="codec",
        technique="Lean 4 proof of the header codec round trip (sequential little-endian/string/VLR lemmas composed over ~40 fields, per-version case split), size arithmetic, in-place rewrite, date and API-compatibility theorems; byte-exact correspondence with LasHeader.write_to/read_from",
        text="Theorems over every header in the legal domain (WF: field widths, versions 1.1-1.4, NUL-free strings up to 32 bytes, any 64-bit patterns for the 12 doubles, any extra header bytes/padding, any well-formed VLR list): the written bytes have exactly version size + extra bytes + 54-byte VLR headers + payloads + padding, that length is the recorded offset to point data, decoding the bytes followed by anything returns every field; a statistics-only update re-encodes to the same length so the same-size guard cannot fire; every civil date 0001-01-01..9999-12-31 survives (case split, no enumeration); every construction/setter/create/convert/writer path ends in the compatibility check, so an ok result is a compatible pair for all versions and formats. The model is compared byte for byte with the real header class on boundary-heavy and damaged headers, every day of many years, and the full API matrix.",
        note="Trusted: Lean kernel; generated sizes/tables and the generated preferred-version function; struct.pack('<d') bit-exactness; datetime.date arithmetic (model validated against it on full years); the point-format / extra-bytes resolution that follows parseHdr in read_from is modelled in the file-level checks, not here. Reading is lenient and never checks compatibility (by design).",
        design="6 (C07)"),
    "C02": dict(
        engine="codec",
        technique="Lean 4 proof that the tables regenerated from the running laspy equal tables transcribed from the ASPRS specification (kernel evaluation), plus layout round-trip theorems for records, signed fields and packed bytes over those tables; two-direction correspondence with an independent decoder/encoder",
        text="Spec/Asprs.lean holds field tables typed from the specification only (record formats 0-10 with offsets/widths/kinds, bit assignments, header fields per version, VLR/EVLR headers, the 192-byte extra-bytes descriptor, type ids 1-30, option bits, global-encoding bits). Theorems: laspy's generated numpy layout, sizes (20..67), dimension order/types, masks, version table, header sizes and the header model's field widths are equal to them; a decoder over the specification table inverts laspy's record layout for every field content and consumes exactly one record length, and conversely; two's complement is a bijection on each signed range; every combination of sub-field values packs to a byte from which the specification's bit positions recover it (all 256 bytes). Correspondence: laspy assigns through named dimensions and writes, the Lean spec decoder and a separate Python struct decoder read; an encoder over the spec tables writes and laspy presents the same values.",
        note="Trusted: the hand transcription of the specification (an error there shows as a failed equality unless laspy has the same error); for LAS 1.4 laspy writes the legacy count fields as 0 (allowed when legacy compatibility is not kept) and the spec decoder reads the 1.4 fields. Float fields are compared as bit patterns.",
        design="6 (C02)"),
    "C01": dict(
        engine="fileio",
        technique="Lean 4 proof: structure theorem for writer sessions (final header ++ records ++ EVLRs) composed with the header/VLR round-trip theorems to give readFile (writeFile img) = img for all record contents; byte-exact correspondence with LasData.write / laspy.read",
        text="Theorems for every header in the legal domain, every list of records of the header's record length (arbitrary bytes: every bit pattern of every field, NaN payloads, extremes, 0 and 1 points) and every EVLR list: the one-shot session succeeds, its output is exactly final header ++ records ++ EVLRs, and reading it returns byte-identical records, the same count, version, format byte, record length, scale/offset bit patterns, strings, GUID and VLRs; the writer never alters the caller's header fields. The model is compared byte for byte with the real write (BytesIO, path, buffered and unbuffered files) and its readFile with laspy.read on all 24 version/format pairs with typed extra dimensions; C01_idempotent: writing the decoded header with the same records and normal-form EVLRs reproduces the file byte for byte (header-encoding congruence); purity of the real writer is checked on the implementation by deep snapshots.",
        note="Trusted: Lean kernel; numpy exposes the structured array's memory as the record image (memoryview/frombuffer); hardware-double evaluation of the extrema in the driver; creation date set explicitly. Scalings are finite (a NaN scale makes the writer take its rescale path because NaN != NaN; outside the quantifier, recorded in DESIGN.md).",
        design="6 (C01)"),
    "C03": dict(
        engine="fileio",
        technique="Lean 4 proof from the session structure theorem: count, histogram (induction), layout arithmetic and EVLR pointer for every chunking; extrema under explicit float laws; invariant for in-memory histories; correspondence with recomputed numpy statistics",
        text="Theorems for every session (any partition into chunks, with or without EVLRs): the file reads back with point count = number of stored records, per-return counts = the histogram of return numbers 1..15 (0 counted nowhere; five bins survive before 1.4 by canon), file length = offset + count x record length + EVLR bytes, EVLR pointer/number exact; extrema = rendered integer extremum per axis for a non-empty cloud and zero for an empty one, under the stated FloatLaws; in memory, after any history of points assignment / indexing / update_header the statistics are those of the records held and equal what a written file carries. Correspondence: one-shot and chunked files and in-memory histories against statistics recomputed with plain numpy and against the model's hardware-double evaluation.",
        note="Trusted: FloatLaws (monotone X*s+o for finite positive s, strict weak order without NaN, reset values bound every rendered value) as explicit hypotheses of the extrema theorems, validated by correspondence; numpy index resolution. The appender's statistics belong to C06.",
        design="6 (C03)"),
    "C04": dict(
        engine="fileio",
        technique="Lean 4 proof by induction over the chunk list (store = header ++ bytes so far, statistics = fold of grow) plus the float-law lemma that folded extrema equal the extrema of the concatenation; byte comparison of real chunked and one-shot files",
        text="Theorem C04_bytes: for every header in the legal domain, every partition of the record sequence into write_points calls (any sizes, empty chunks, a single chunk) and every EVLR list, the session's bytes equal the one-shot session's bytes; empty chunks are no-ops in every state; after write_evlrs (non-empty) or close a non-empty chunk is refused, as are points of another format/record length, without producing a new state. Correspondence: all compositions of small n plus seeded partitions on the real LasWriter vs LasData.write vs the model; late writes and foreign formats must raise and leave getvalue() unchanged. Compressed equality is part of C14.",
        note="Trusted: FloatLaws hypothesis for the extrema (as C03); BytesIO write semantics (overwrite at position 0 keeps the tail).",
        design="6 (C04)"),
    "C05": dict(
        engine="fileio",
        technique="Lean 4 refinement proof: the concrete reader (read_points mirrored, seek generated from LasReader.seek's AST) refines the cursor specification for every operation sequence, by induction with the invariant 0 <= cursor <= count; byte-level theorem for the uncompressed point source; correspondence with real LasReader histories",
        text="seek is translated from the Python source on every run and proved equal to the specification's rule (target in [0,count) accepted for SET/CUR/END and every integer pos, IndexError otherwise, ValueError for another whence); step_refines/C05_refines: for every finite sequence over read_points(n in Z), seek, next(chunk_iterator(k)) and read(), outputs and final cursor equal the cursor model's; reads return min(n, remaining) from the cursor (all remaining for n<0), never reach beyond the point count, and an exhausted or empty file yields empty slices; a refused seek leaves the cursor unchanged; at byte level a read at cursor c of l points returns exactly the bytes of records c..c+l-1. Correspondence: seeded and (thorough) exhaustive short histories on real readers over files of 0/1/many points with trailing EVLRs, each returned block located in the full point array.",
        note="Trusted: Lean kernel; translator subset (Int arithmetic, range membership); BytesIO/file seek+readinto semantics for the byte-level claim (well-formed files; truncated files are C19).",
        design="6 (C05)"),
    "C06": dict(
        engine="fileio",
        technique="Lean 4 proof that the appender on a writer-produced file yields byte for byte the writer's file of the concatenation (store-shape induction over chunks, header-encoding congruence, float laws for the extrema), lifted to any number of sessions by induction; byte comparison with real LasAppender sessions and with one-shot files written by laspy",
        text="C06_bytes: for every original written by a writer session (any chunking, any EVLRs in normal form, every legal header) and every sequence of appended chunks (empty ones included), appendSession leaves exactly the bytes of the one-shot session over original ++ appended points: same point sequence, exact count / histogram / extrema, VLRs untouched, EVLRs re-emitted right after the new points with the pointer updated; C06_sessions lifts this to any number of successive sessions; C06_format: another point format or record length is refused without a new state. The model's appendSession is compared byte for byte with real LasAppender sessions (1-3 sessions, every version/format pair, empty originals) and the result with the one-shot file laspy writes; rescaling of scale-aware records with a different scaling is checked by the direct oracle (coordinates within half a step, caller's records unchanged) and proved in exact arithmetic under C11.",
        note="Trusted: FloatLaws + BitsRoundTrip (struct.pack/unpack inverse on the doubles that occur) as explicit hypotheses; BytesIO write-at-position semantics (writeAt); originals not written by laspy (gaps before EVLRs, non-canonical padding) are outside C06_bytes and only get the oracle's point-sequence / EVLR checks.",
        design="6 (C06)"),
    "C19": dict(
        engine="fileio",
        technique="Lean 4 proof of the two key lemmas (torn / truncated little-endian counter <= new value; records returned depend only on count, offset, record length and the bytes present, hence are a prefix of what was being stored) + exhaustive crash-image correspondence with laspy.read under a watchdog",
        text="Theorems: for every width and values old <= new < 256^w and every cut k, the counter decoded from a rewrite torn after k bytes is <= new, and a truncated counter is <= the full one; for ANY decoded header that carries the intended record length, with the record area of the image a prefix of the intended records followed by anything and count <= number of intended records, the reader either fails or returns a prefix of the intended records (C19_records_prefix); readFile is a total function (termination by construction). Partial: that a torn header rewrite / truncated header decodes to a header with the same offset, format and record length and with the torn count (key lemma (i) of DESIGN.md) is not yet a theorem; it is validated by running every crash image (every write-call boundary, every byte inside header rewrites, thorough: every byte of the stream) and every truncation of real LasData.write / LasWriter / LasAppender sessions through both laspy.read and the model's readFile and comparing verdicts and returned bytes.",
        note="Trusted: BytesIO/file write-at-position semantics; the recording stream sees every low-level write laspy issues (pure-Python writes through the stream object); EVLRs parsed through a stale pointer may be garbage or raise, only the points are constrained; OS-level torn sector writes below write() granularity are represented by byte-granular cuts.",
        design="6 (C19)"),
    "C11": dict(
        engine="lasdata",
        technique="Lean 4 proof in exact rational arithmetic (core Rat; Mathlib linarith/nlinarith/field_simp for the inequalities): rounding error and range lemmas, invariant over all operation histories, write/stream theorems; correspondence of the rational model (with the header/record array aliasing) against real LasData histories on dyadic and decimal scalings",
        text="Theorems for every positive scale, every offset, every rational coordinate: round-half-even moves a value by at most 1/2 and stays between integer bounds, so an accepted assignment stores an integer within 32 bits whose rendering is within half a step of the value (C11_assign), and a value outside the window is refused with nothing stored (C11_refused, C11_refused_keeps); for every operation (header edits in place or by rebinding, LasData and record assignments, change_scaling) accepted or refused, every stored coordinate still fits 32 bits (C11_inv_step: never wraps); what is presented is X*scale+offset under the record's current scaling; writing yields the header's scaling with every coordinate within half a header step of what was presented, or an error, and is a function of the state (caller untouched); the same for scale-aware records streamed into a writer/appender with another scaling (C11_stream, also the C06 rescale claim). The model carries the Python aliasing between header and record scale arrays (including the synchronisation that precedes the bounds check of a refused las.x assignment), and is compared with real histories: exactly on dyadic scalings (ties included), away from ties on decimal scalings.",
        note="Trusted / partial: float64 evaluation of round((v-o)/s), of X*s+o and of the window test versus exact arithmetic - validated on dyadic inputs exactly and on decimal inputs away from ties (histories within 1e-5 of a tie or of the int32 window edge, or with |offset|/scale > 1e11 where a double cannot resolve the integer grid, are skipped and counted); NaN/inf coordinates are outside 'finite coordinates'.",
        design="6 (C11)"),
    "C12": dict(
        engine="lasdata",
        technique="Lean 4 proof over the generated dimension tables: by-name conversion keeps every common dimension, fails exactly when a value exceeds a narrower target field, keeps count and extra bytes, lost dimensions = set difference (all 121 pairs), version decision never lowers and is always compatible; correspondence with laspy.convert on record bytes",
        text="The conversion is modelled at the level of named dimensions over tables regenerated from laspy (dimension order, packed sub-fields and their maxima). Theorems: names are unique in every format and X, Y, Z are always common; when conversion succeeds every dimension common to source and target holds the source's value and every other target dimension is zero (C12_common); it is refused exactly when some common dimension exceeds the target dimension's maximum - never truncated (C12_loud, an iff); the point count is kept and the extra bytes are carried unchanged; lost dimensions are exactly those absent from the target; with no explicit request the version is max(current, preferred) >= current, and every accepted result is a compatible pair with the requested format. The byte-level model (unpack by the generated layout, convert, pack) is compared with the real laspy.convert on all 121 pairs with random and in-range records, typed and scaled (64-bit, multi-element) extra dimensions, VLRs and EVLRs; purity of the source is checked by deep snapshots.",
        note="Trusted: translator tables; C02/C09 theorems tie named dimensions to bytes; deep copy of the header and VLR/EVLR carrying are checked by the oracle only (not modelled).",
        design="6 (C12)"),
    "C13": dict(
        engine="lasdata",
        technique="Lean 4 proof of the extra-bytes descriptor round trip (192-byte layout over generated ctypes offsets, type table by kernel evaluation), payload round trip by induction, shape invariant and value preservation for add/remove; correspondence with real LasData histories on record bytes and VLR payload",
        text="Theorems for every well-formed extra dimension (any of the 30 typed element types, scaled or not, or an opaque array of 4..255 bytes, names and descriptions up to the full 32 bytes): the descriptor laspy writes is 192 bytes and is read back as the same dimension (name, type, element count of an opaque array for every value of the options byte, scales, offsets, description), hence the extra-bytes VLR payload describes exactly the current dimensions in order (C13_payload); record length = standard part + sum of dimension sizes under the shape invariant; adding dimensions keeps every existing value and appends zero values, removing dimensions erases the same positions from the descriptors and from every record and keeps the invariant; removing a standard or unknown name is refused without a new state. The model (addDims/removeDims, descriptor, parseDescriptor) is compared with real add_extra_dim(s)/remove_extra_dim(s)/assignment/round-trip histories on every point format: full record bytes and the VLR payload after each history.",
        note="Trusted: generated ctypes layout / type table / option masks; names and descriptions NUL-free ASCII; value copying inside laspy goes through numpy field assignment (checked by the oracle: every other dimension byte-equal after each step). Scaled 64-bit dimensions under add/remove rely on the C12 fix (D12).",
        design="6 (C13)"),
    "C17": dict(
        engine="streams",
        technique="Lean 4 proof over a model of the stream method calls issued by open/read (induction over read operations: a non-seekable source never sees seek/tell), corollary of the session structure theorem (EVLRs right after the points = EVLRs at the header's pointer), frame lemma for memory-map edits; pairwise comparison of what real readers return through every access path",
        text="Theorems: for every file description, every closefd / read_evlrs choice and every sequence of read_points / read() operations, a stream that reports seekable() == False has no seek or tell in its call log, from open through deferred EVLR loading to close (C17_no_seek); for every file a writer session produces, the bytes right after the last point are the bytes at start_of_first_evlr, so the sequential EVLR path of non-seekable sources reads the same records as the seeking path (C17_evlrs_sequential, from C03_file); overwriting a field image at position p of the mapped bytes changes nothing outside [p, p+w) and leaves the length (C17_mmap_frame; with C09/C02 this is 'only the bytes of the assigned dimension'). Correspondence/oracle: the same file read through path, bytes, BytesIO, buffered file, read-only-interface double, no-readinto double, logged stream (read_evlrs True/False, whole/chunked) and laspy.mmap must give identical header/VLRs/EVLRs/records; the doubles' call logs equal the model's; mmap edits are diffed at byte level and re-read.",
        note="Trusted: the doubles implement the io protocol the way laspy uses it (an object without seekable() is outside Python's io protocol); mmap/OS page cache semantics; content equality of what is read is established on the implementation by pairwise comparison (the byte-level reading model is C01/C05), the Lean model here covers calls and positions.",
        design="6 (C17)"),
    "C18": dict(
        engine="streams",
        technique="Lean 4 proof by case analysis and induction over read operations on the model of open_las / LasReader / LasWriter / LasAppender / LasData.write control flow (closed flag, position, calls); exhaustive scenario matrix on the real code with stream doubles",
        text="Theorems: for every file description (valid, bad signature, truncated, incoherent, unwritable version, with/without points and EVLRs), every closefd, every read_evlrs and every sequence of reads before leaving, the stream is closed at the end iff closefd - also when opening fails (C18_read); after a successful open for reading the stream is at offset-to-point-data whether or not EVLRs were loaded (C18_position); a writer session (compatible header or not, body raising or not) and an append session (non-seekable destination, invalid content, unwritable header, body raising) close iff closefd (C18_write, C18_append); LasData.write never closes (C18_lasdata_write). The complete finite matrix of scenarios runs on the real code in both tiers and the model's closed flag / open outcome / open position are compared.",
        note="Trusted: the FileInfo abstraction of file contents (outcome classes) - the byte-level conditions behind each class are those of decodeHdr (C07); exceptions raised by user code inside the with-body are modelled as a flag.",
        design="6 (C18)"),
}
NOT_YET = "check not built yet in this round (planned per DESIGN.md section 10); not claimed until its theorems build and its check is quiet"

checks, na = [], []
for p in props:
    pid = p["id"]
    if pid in CLAIMED:
        c = CLAIMED[pid]
        checks.append({
            "property_id": pid,
            "quick_cmd": f"./check {pid} --tier quick",
            "thorough_cmd": f"./check {pid} --tier thorough",
            "evidence_file": f"evidence/{pid}.json",
            "replay_cmd_template": f"./check {pid} --replay {{path}}",
            "engine": c["engine"],
            "level_claimed": {"category": "proof", "text": c["text"], "design_ref": c["design"]},
            "level_note": c["note"],
            "technique": c["technique"],
        })
    else:
        na.append({"property_id": pid, "reason": NOT_YET})

manifest = {
    "version": 1,
    "setup_cmd": "/venv/bin/python translator/py2lean.py && cd lean && lake build LasModel driver",
    "hooks": {
        "guard": "LASPY_VERIF",
        "enable": "no source hooks are needed: all instrumentation is by test doubles owned by the harness (the checks export LASPY_VERIF=1 for uniformity; laspy does not read it)",
        "baseline_off_cmd": "cd /repo && /venv/bin/python -m pytest -ra -q -p no:cacheprovider --timeout=900 --continue-on-collection-errors",
        "source_commits": [],
        "add_only": True,
    },
    "engines": [
        {"name": "codec", "path": "harness/props/", "serves_properties": ["C07", "C08", "C02"], "kind_free_text": "Lean byte-level codecs (little-endian ints, fixed-width strings, dates, VLR framing, header) with round-trip theorems + byte-exact correspondence with the real serialisers"},
        {"name": "fileio", "path": "harness/fileio.py", "serves_properties": ["C01", "C03", "C04", "C05", "C06", "C19"], "kind_free_text": "Lean writer/reader/appender session model (Model/FileIO.lean) with the session structure theorem; real LasWriter/LasReader/LasAppender sessions compared byte for byte through the driver"},
        {"name": "lasdata", "path": "harness/props/", "serves_properties": ["C11", "C12", "C13"], "kind_free_text": "Lean models of LasData-level operations (scaling in exact rationals, conversion, extra dimensions) compared with real LasData histories"},
        {"name": "streams", "path": "harness/streams.py", "serves_properties": ["C17", "C18"], "kind_free_text": "Lean model of stream calls/ownership (Model/Streams.lean); logging stream doubles with configurable capabilities drive the real open/read/write/append code"},
        {"name": "bits", "path": "harness/props/", "serves_properties": ["C20", "C09", "C10"], "kind_free_text": "Lean theorems over generated tables/functions + exhaustive translation validation and correspondence through lean/Driver.lean"},
    ],
    "checks": checks,
    "not_applicable": na,
    "notes": "Technique family: machine-checked proof in Lean 4. Every check: regenerate Gen/*.lean from /repo (translator), lake build of the property's theorems with #print axioms audit, correspondence of the executable model with the real laspy code through the compiled Lean driver, direct oracles on the implementation for the failing-input search. See DESIGN.md.",
}
json.dump(manifest, open(os.path.join(HERE, "MANIFEST.json"), "w"), indent=1)
print("checks:", len(checks), "not_applicable:", len(na))
