#!/usr/bin/env python3
"""Seeded changes (realistic breakages of one property each, written by sub-agents that saw only the
property text): collect them under seeded/<id>/ and evaluate the checks against them.

  tools_seeded.py collect <PROP> <srcdir>      srcdir holds m1/, m2/ ... with patch.diff, demo.py, meta.json
  tools_seeded.py eval <id> [--all]            apply to /repo, run demo + own check (+ all checks), undo
  tools_seeded.py table                        markdown table of results

Evaluation applies the patch with `git -C /repo apply`, and always undoes it with
`git -C /repo checkout -- .` (also on errors). Nothing is ever committed to /repo."""
import json
import os
import re
import shutil
import subprocess
import sys
import time

HERE = os.path.dirname(os.path.abspath(__file__))
SEEDED = os.path.join(HERE, "seeded")
PY = "/venv/bin/python"


def sh(cmd, timeout=1800, env=None, cwd=None):
    p = subprocess.run(cmd, shell=isinstance(cmd, str), capture_output=True, text=True, timeout=timeout, env=env, cwd=cwd)
    return p.returncode, (p.stdout + p.stderr)


REPO = os.environ.get("VERIF_REPO", "/repo")     # a scratch worktree when several evaluations run side by side (one property per worker)


def repo_clean():
    rc, out = sh(f"git -C {REPO} status --porcelain")
    return out.strip() == ""


def collect(prop, src):
    n = 0
    for m in sorted(os.listdir(src)):
        d = os.path.join(src, m)
        if not (os.path.isdir(d) and os.path.exists(os.path.join(d, "patch.diff"))):
            continue
        sid = f"{prop}-{m}"
        dst = os.path.join(SEEDED, sid)
        if os.path.exists(dst):
            shutil.rmtree(dst)
        shutil.copytree(d, dst, ignore=shutil.ignore_patterns("__pycache__"))
        meta_p = os.path.join(dst, "meta.json")
        try:
            meta = json.load(open(meta_p))
        except Exception:
            meta = {}
        meta["id"] = sid
        meta["property"] = prop
        meta["origin"] = "sub-agent given only the property record and a scratch worktree"
        json.dump(meta, open(meta_p, "w"), indent=1)
        n += 1
        print("collected", sid)
    return n


def run_demo(dst):
    env = dict(os.environ, PYTHONPATH=REPO)
    try:
        rc, out = sh([PY, "demo.py"], timeout=300, env=env, cwd=dst)
    except subprocess.TimeoutExpired:
        return 124, "timeout"
    return rc, out[-400:]


def run_check(pid, tier="quick"):
    t0 = time.time()
    try:
        rc, out = sh([os.path.join(HERE, "check"), pid, "--tier", tier], timeout=(300 if tier == "quick" else 3000), cwd=HERE)
    except subprocess.TimeoutExpired:
        return {"exit": 124, "violation": None, "wall_s": round(time.time() - t0, 1)}
    vio = [l for l in out.splitlines() if l.startswith("VIOLATION")]
    summary = [l for l in out.splitlines() if re.match(r"C\d\d: tier=", l)]
    what = None
    if vio:
        m = re.search(r"replay=(\S+)", vio[0])
        if m:
            try:
                what = json.load(open(os.path.join(HERE, m.group(1))))["what"][:300]
            except Exception:
                what = None
    return {"exit": rc, "violation": vio[0] if vio else None, "what": what, "summary": summary[-1] if summary else out[-200:],
            "wall_s": round(time.time() - t0, 1)}


def evaluate(sid, all_checks=False, tier="quick"):
    dst = os.path.join(SEEDED, sid)
    meta = json.load(open(os.path.join(dst, "meta.json")))
    prop = meta["property"]
    if not repo_clean():
        print(f"refusing: {REPO} is not clean")
        return 2
    res = {"id": sid, "property": prop, "repo_head": sh(f"git -C {REPO} rev-parse --short HEAD")[1].strip(), "tier": tier}
    try:
        prev = json.load(open(os.path.join(dst, "result.json")))
        if not all_checks and "other_checks" in prev:
            # keep the cross-check information of an earlier full evaluation
            res["other_checks"] = prev["other_checks"]
            res["other_checks_evaluated_at"] = prev.get("other_checks_evaluated_at", prev.get("repo_head"))
    except Exception:
        pass
    rc, out = sh(f"git -C {REPO} apply --check {os.path.join(dst, 'patch.diff')}")
    if rc != 0:
        res["applies"] = False
        res["note"] = out[-300:]
        json.dump(res, open(os.path.join(dst, "result.json"), "w"), indent=1)
        print(sid, "patch does not apply")
        return 1
    res["applies"] = True
    try:
        sh(f"git -C {REPO} apply {os.path.join(dst, 'patch.diff')}")
        rc, out = run_demo(dst)
        res["demo_mutated_exit"] = rc
        res["demo_mutated_out"] = out.strip().splitlines()[-1][:300] if out.strip() else ""
        res["own_check"] = run_check(prop, tier)
        if all_checks:
            res["other_checks"] = {}
            for i in range(1, 21):
                pid = f"C{i:02d}"
                if pid != prop:
                    r = run_check(pid, tier)
                    if r["exit"] != 0:
                        res["other_checks"][pid] = r
    finally:
        sh(f"git -C {REPO} checkout -- .")
        sh(f"git -C {REPO} clean -fdq -- laspy")
    rc, out = run_demo(dst)
    res["demo_clean_exit"] = rc
    res["confirmed"] = res.get("demo_mutated_exit") == 1 and rc == 0
    res["caught_by_own_check"] = res["own_check"]["exit"] == 1 and bool(res["own_check"]["violation"])
    json.dump(res, open(os.path.join(dst, "result.json"), "w"), indent=1)
    print(sid, "confirmed" if res["confirmed"] else "NOT-CONFIRMED", "caught" if res["caught_by_own_check"] else "MISSED",
          "|", (res["own_check"].get("what") or res["own_check"].get("summary") or "")[:160])
    return 0


def table():
    rows = []
    for sid in sorted(os.listdir(SEEDED)):
        d = os.path.join(SEEDED, sid)
        if not os.path.exists(os.path.join(d, "result.json")):
            continue
        r = json.load(open(os.path.join(d, "result.json")))
        m = json.load(open(os.path.join(d, "meta.json")))
        others = ",".join(sorted(r.get("other_checks", {}))) or "-"
        rows.append(f"| {sid} | {m.get('summary', '')[:110]} | {'yes' if r.get('confirmed') else 'no'} | "
                    f"{'caught' if r.get('caught_by_own_check') else 'missed'} | {others} | {(r['own_check'].get('what') or '')[:120]} |")
    print("| id | change | demo confirms | own check | other checks alarming | first reported failure |")
    print("|---|---|---|---|---|---|")
    print("\n".join(rows))


if __name__ == "__main__":
    cmd = sys.argv[1]
    if cmd == "collect":
        collect(sys.argv[2], sys.argv[3])
    elif cmd == "eval":
        tier = "thorough" if "--thorough" in sys.argv else "quick"
        sys.exit(evaluate(sys.argv[2], "--all" in sys.argv, tier))
    elif cmd == "table":
        table()


def eval_refactor(rid):
    """a behaviour-preserving rewrite: every check must stay quiet"""
    dst = os.path.join(HERE, "seeded", "refactors", rid)
    if not repo_clean():
        print(f"refusing: {REPO} is not clean")
        return 2
    res = {"id": rid, "repo_head": sh(f"git -C {REPO} rev-parse --short HEAD")[1].strip(), "alarms": {}}
    rc, out = sh(f"git -C {REPO} apply --check {os.path.join(dst, 'patch.diff')}")
    if rc != 0:
        res["applies"] = False
        json.dump(res, open(os.path.join(dst, "result.json"), "w"), indent=1)
        print(rid, "patch does not apply")
        return 1
    res["applies"] = True
    try:
        sh(f"git -C {REPO} apply {os.path.join(dst, 'patch.diff')}")
        from concurrent.futures import ThreadPoolExecutor
        pids = [f"C{i:02d}" for i in range(1, 21)]
        with ThreadPoolExecutor(max_workers=int(os.environ.get("VERIF_JOBS", "5"))) as ex:
            results = dict(zip(pids, ex.map(lambda p_: run_check(p_, "quick"), pids)))
        for pid in pids:
            r = results[pid]
            if r["exit"] != 0:
                # the full obligation list tells which theorem / correspondence broke
                try:
                    ev = json.load(open(os.path.join(HERE, "evidence", pid + ".json")))
                    r["broken"] = [o["name"] + ": " + o.get("detail", "")[:300] for o in ev["coverage"]["obligation_list"] if not o["discharged"]]
                except Exception:
                    pass
                res["alarms"][pid] = r
    finally:
        sh(f"git -C {REPO} checkout -- .")
        sh(f"git -C {REPO} clean -fdq -- laspy")
    json.dump(res, open(os.path.join(dst, "result.json"), "w"), indent=1)
    print(rid, "quiet" if not res["alarms"] else "ALARMS " + ",".join(sorted(res["alarms"])),
          "|", "; ".join((v.get("what") or (v.get("broken") or [""])[0] or "")[:140] for v in res["alarms"].values()))
    return 0


if __name__ == "__main__" and len(sys.argv) > 1 and sys.argv[1] == "refactor":
    sys.exit(eval_refactor(sys.argv[2]))
